"""Sidecar contracts for /repo/src/multidecoder (nothing in /repo is edited)."""
