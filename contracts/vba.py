"""Contracts for multidecoder/decoders/vba.py  (C11 CreateObject balancing, C01, C03)."""
from pyvc.contract import Ghost, Loop, contract, spec
from pyvc.rt import child_at, nchildren  # noqa: F401  (run-time meaning of the spec vocabulary)


@spec
def bal(data: bytes, o: int, c: int, s: int, i: int) -> int:
    """1 + (#open - #close) over data[s:i], counting as the code does (close tested first)."""
    if i <= s:
        return 1
    if data[i - 1] == c:
        return bal(data, o, c, s, i - 1) - 1
    if data[i - 1] == o:
        return bal(data, o, c, s, i - 1) + 1
    return bal(data, o, c, s, i - 1)


CLOSE = "OPEN_TO_CLOSE_MAP[brace_ord]"

contract(
    "multidecoder.decoders.vba.get_closing_brace",
    props=["C11", "C01", "C03"],
    requires={"start-in-range": "0 <= start_index <= len(data)"},
    raises_iff={"ValueError": "brace_ord not in OPEN_TO_CLOSE_MAP"},
    loops={
        1: Loop(
            inv={
                "range": "start_index <= index <= len(data)",
                "balance": f"balance == bal(data, brace_ord, {CLOSE}, start_index, index)",
                "open-before": f"forall(range(start_index, index), lambda i: bal(data, brace_ord, {CLOSE}, start_index, i) != 0)",
            },
            variant="len(data) - index",
        )
    },
    ensures={
        # the property: the span ends at the balancing brace, i.e. at the least index where the balance returns to 0
        "balanced-at-result": f"implies(result >= 0, start_index < result <= len(data) and bal(data, brace_ord, {CLOSE}, start_index, result) == 0)",
        "least": f"implies(result >= 0, forall(range(start_index, result), lambda i: bal(data, brace_ord, {CLOSE}, start_index, i) != 0))",
        "none-iff-never-balanced": f"implies(result < 0, result == -1 and forall(range(start_index, len(data) + 1), lambda i: bal(data, brace_ord, {CLOSE}, start_index, i) != 0))",
    },
)
