"""Contracts for multidecoder/keyword.py  (C17, C01)."""
from pyvc.contract import Ghost, Loop, contract, spec

# The property (C17): the hits for a keyword are exactly the occurrences a left-to-right literal search yields
# (Occ_0 = find(data, kw, 0), Occ_{j+1} = find(data, kw, Occ_j + len(kw))) whose neighbouring bytes, if any, are
# not ASCII letters or digits.  Ghost `chain` is the Occ sequence seen so far, `cnt[j]` the number of accepted
# occurrences among chain[0..j), `idx[j]` the chain position of the j-th reported start.

BOUNDARY_OK = (
    "(chain[{j}] == 0 or not data[chain[{j}] - 1 : chain[{j}]].isalnum()) and "
    "(chain[{j}] + len(keyword) == len(data) or not data[chain[{j}] + len(keyword) : chain[{j}] + len(keyword) + 1].isalnum())"
)


def ok(j):
    return BOUNDARY_OK.format(j=j)


contract(
    "multidecoder.keyword.find_all",
    props=["C17", "C01"],
    opaque={"find", "isalnum", "slice"},
    loops={
        1: Loop(
            ghosts={
                "chain": Ghost("list[int]", "[]", "old.chain + [old.start]"),
                "cnt": Ghost("list[int]", "[0]", "old.cnt + [len(starts)]"),
                "idx": Ghost("list[int]", "[]", "old.idx + [len(old.chain)] if len(starts) > len(old.starts) else old.idx"),
            },
            inv={
                "types": "len(keyword) > 0 and len(cnt) == len(chain) + 1 and cnt[0] == 0 and len(idx) == len(starts) and len(starts) == cnt[len(chain)]",
                "start": "start == (data.find(keyword) if len(chain) == 0 else data.find(keyword, chain[len(chain) - 1] + len(keyword)))",
                "chain": "forall(range(len(chain)), lambda j: chain[j] >= 0 and chain[j] == (data.find(keyword) if j == 0 else data.find(keyword, chain[j - 1] + len(keyword))))",
                "cnt": "forall(range(len(chain)), lambda j: cnt[j + 1] == cnt[j] + (1 if (" + ok("j") + ") else 0))",
                "mono": "forall(range(len(chain)), lambda j: cnt[j] >= 0 and cnt[j + 1] <= len(starts))",
                "fwd": "forall(range(len(chain)), lambda j: implies(" + ok("j") + ", starts[cnt[j]] == chain[j]))",
                "bwd": "forall(range(len(starts)), lambda j: 0 <= idx[j] < len(chain) and (" + ok("idx[j]") + ") and cnt[idx[j]] == j and starts[j] == chain[idx[j]])",
                "occ": "forall(range(len(starts)), lambda j: 0 <= starts[j] and starts[j] + len(keyword) <= len(data) and data[starts[j] : starts[j] + len(keyword)] == keyword)",
            },
            variant="(len(data) - start + 1) if start >= 0 else 0",
        )
    },
    ensures={
        # empty keyword: nothing is reported
        "empty-keyword": "implies(len(keyword) == 0, len(result) == 0)",
        # non-empty keyword: `chain` (ghost witness) is the COMPLETE left-to-right occurrence chain ...
        "chain-def": "implies(len(keyword) > 0, forall(range(len(chain)), lambda j: chain[j] >= 0 and chain[j] == (data.find(keyword) if j == 0 else data.find(keyword, chain[j - 1] + len(keyword)))))",
        "chain-complete": "implies(len(keyword) > 0, (data.find(keyword) if len(chain) == 0 else data.find(keyword, chain[len(chain) - 1] + len(keyword))) < 0)",
        # ... and result is exactly its sub-sequence of delimited occurrences, in order, each once
        "cnt-def": "implies(len(keyword) > 0, len(cnt) == len(chain) + 1 and cnt[0] == 0 and len(result) == cnt[len(chain)] and forall(range(len(chain)), lambda j: cnt[j + 1] == cnt[j] + (1 if (" + ok("j") + ") else 0)))",
        "complete": "implies(len(keyword) > 0, forall(range(len(chain)), lambda j: implies(" + ok("j") + ", 0 <= cnt[j] < len(result) and result[cnt[j]] == chain[j])))",
        # every reported start is an occurrence of the keyword, inside the data
        "occurrence": "forall(range(len(result)), lambda j: 0 <= result[j] and result[j] + len(keyword) <= len(data) and data[result[j] : result[j] + len(keyword)] == keyword)",
        "delimited": "forall(range(len(result)), lambda j: (result[j] == 0 or not data[result[j] - 1 : result[j]].isalnum()) and "
        "(result[j] + len(keyword) == len(data) or not data[result[j] + len(keyword) : result[j] + len(keyword) + 1].isalnum()))",
        "sound": "implies(len(keyword) > 0, len(idx) == len(result) and forall(range(len(result)), lambda j: 0 <= idx[j] < len(chain) and (" + ok("idx[j]") + ") and cnt[idx[j]] == j and result[j] == chain[idx[j]]))",
    },
)


# ------------------------------------------------------------------------------------------------ is_mixed_case / find_keywords
# chr(v).isupper() / .islower() on a byte value v follow Latin-1 (str semantics), unlike bytes.isupper(): the tables are read
# from CPython at run time by the executor (builtin `latin1_upper` / `latin1_lower`).
DISC = "((latin1_upper(raw[{i}]) and not latin1_upper(value[{i}])) or (latin1_lower(raw[{i}]) and not latin1_lower(value[{i}])))"

contract(
    "multidecoder.keyword.is_mixed_case",
    props=["C17"],
    loops={1: Loop(index="k", inv={"no-discrepancy-so-far": "forall(range(k), lambda i: not " + DISC.format(i="i") + ")", "not-uniform": "not raw.isupper() and not raw.islower()"})},
    ensures={
        # MixedCase exactly when the matched text is neither all upper- nor all lower-case and differs in letter case from the listed keyword
        "iff": "iff(result, not raw.isupper() and not raw.islower() and exists(range(min(len(raw), len(value))), lambda i: " + DISC.format(i="i") + "))",
    },
)

from contracts.decoders import EACH, FRESH  # noqa: E402

contract(
    "multidecoder.keyword.find_keywords",
    props=["C17", "C03", "C01"],
    types={"keywords": "list[bytes]"},
    returns="list[Node]",
    fresh_nodes=True,
    ensures_each={
        **EACH,
        "type-is-the-list-name": "node.type == label",
        "value-is-a-listed-keyword": "exists(range(len(keywords)), lambda i: node.value == keywords[i])",
        "span-is-an-occurrence": "node.end == node.start + len(node.value) and data.lower()[node.start : node.end] == node.value.lower()",
        "delimited": "(node.start == 0 or not data.lower()[node.start - 1 : node.start].isalnum()) and (node.end == len(data) or not data.lower()[node.end : node.end + 1].isalnum())",
        "label-is-MixedCase-or-empty": "node.obfuscation == 'MixedCase' or node.obfuscation == ''",
    },
    ensures={"fresh": FRESH},
)
