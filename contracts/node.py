"""Contracts for multidecoder/node.py  (C03, C04, C19, C20, C01)."""
from pyvc.contract import Ghost, Loop, contract, spec
from pyvc.rt import child_at, nchildren  # noqa: F401  (run-time meaning of the spec vocabulary)

# ------------------------------------------------------------------------------------------------ Node.__init__
contract(
    "multidecoder.node.Node.__init__",
    props=["C03", "C20"],
    types={"self": "Node", "type_": "str", "value": "bytes", "obfuscation": "str", "start": "int", "end": "int",
           "parent": "Node|None", "children": "list[Node]"},  # None and [] are indistinguishable to the code (`if children:`)
    requires={"self-not-a-child": "forall(range(len(children)), lambda k: children[k] != self)"},
    modifies={"type": ["self"], "value": ["self"], "obfuscation": ["self"], "start": ["self"], "end": ["self"],
              "parent": ["self", "children"], "children": ["self"]},
    loops={
        1: Loop(
            index="i",
            inv={
                "done": "forall(range(i), lambda k: children[k].parent == self)",
                "frame": "forall(refs, lambda r: implies(not exists(range(len(children)), lambda k: children[k] == r), r.parent == at(pre_L1, r.parent)))",
                "self-fields": "self.type == type_ and self.value == value and self.obfuscation == obfuscation and self.start == start and self.end == end and self.parent == parent",
                "children": "nchildren(self) == len(children) and forall(range(len(children)), lambda k: child_at(self, k) == children[k])",
            },
        )
    },
    ensures={
        "fields": "self.type == type_ and self.value == value and self.obfuscation == obfuscation and self.start == start and self.end == end",
        "parent": "self.parent == parent",
        "children": "nchildren(self) == len(children) and forall(range(len(children)), lambda k: child_at(self, k) == children[k])",
        "children-adopted": "forall(range(len(children)), lambda k: children[k].parent == self)",
    },
)

contract(
    "multidecoder.node.Node.shift",
    props=["C04", "C03"],
    types={"self": "Node"},
    returns="Node",
    modifies={"start": ["self"], "end": ["self"]},
    ensures={
        "shifted": "self.start == old(self.start) + offset and self.end == old(self.end) + offset",
        "returns-self": "result == self",
    },
)

contract(
    "multidecoder.node.Node.original",
    props=["C03", "C04"],
    types={"self": "Node"},
    returns="bytes",
    ensures={
        "slice-of-parent": "result == (self.parent.value[self.start : self.end] if self.parent is not None else self.value)",
        # a redundant consequence, proved here once and then available to callers as a plain integer fact
        "length-in-bounds": "implies(self.parent is not None and 0 <= self.start <= self.end <= len(self.parent.value), len(result) == self.end - self.start)",
    },
)

contract(
    "multidecoder.node.shift_nodes",
    props=["C12", "C03"],
    requires={"distinct": "forall((range(len(nodes)), range(len(nodes))), lambda a, b: implies(a != b, nodes[a] != nodes[b]))"},
    modifies={"start": ["nodes"], "end": ["nodes"]},
    loops={
        1: Loop(
            index="i",
            inv={
                "done": "forall(range(i), lambda k: nodes[k].start == old(nodes[k].start) + offset and nodes[k].end == old(nodes[k].end) + offset)",
                "todo": "forall(range(i, len(nodes)), lambda k: nodes[k].start == old(nodes[k].start) and nodes[k].end == old(nodes[k].end))",
                "frame": "forall(refs, lambda r: implies(not exists(range(len(nodes)), lambda k: nodes[k] == r), r.start == old(r.start) and r.end == old(r.end)))",
            },
        )
    },
    ensures={
        "shifted": "forall(range(len(nodes)), lambda k: nodes[k].start == old(nodes[k].start) + offset and nodes[k].end == old(nodes[k].end) + offset)",
        "same-list": "result == nodes",
    },
)


# ------------------------------------------------------------------------------------------------ flatten (C19)
@spec
def flat_from(n: "Node", k: int, off: int) -> bytes:
    """The property's wording as a fold over the children from index k, `off` = end of the last substituted span."""
    if k >= nchildren(n):
        return n.value[off:]
    c = child_at(n, k)
    if c.start < off:
        return flat_from(n, k + 1, off)  # starts before the end of the last substituted child: skipped
    d = flat_from(c, 0, 0)
    if d == n.value[c.start : c.end]:
        return flat_from(n, k + 1, off)  # flattened value equals the text it covers: left alone
    return n.value[off : c.start] + ((b'"' + d + b'"') if c.type.endswith("string") else d) + flat_from(n, k + 1, c.end)


ACYCLIC = "forall(refs, lambda r: height(r) >= 0 and forall(range(nchildren(r)), lambda k: height(child_at(r, k)) < height(r)))"

contract(
    "multidecoder.node.Node.flatten",
    props=["C19", "C01"],
    types={"self": "Node", "output": "list[bytes]"},
    returns="bytes",
    requires={"finite-tree": ACYCLIC},
    decreases="height(self)",
    loops={
        1: Loop(
            index="k",
            inv={
                "prefix": "bytes_of(output) + flat_from(self, k, offset) == flat_from(self, 0, 0)",
            },
        )
    },
    ensures={"substitutes-exactly": "result == flat_from(self, 0, 0)"},
)

# ------------------------------------------------------------------------------------------------ C19 clean-tree lemma
from pyvc.contract import lemma  # noqa: E402

lemma(
    "C19-clean-tree-flattens-to-its-value",
    props=["C19"],
    vars={"n": "Node", "k": "int"},
    hyps=[
        "0 <= k <= nchildren(n)",
        # Clean(n): the value of every child equals the text it covers
        "implies(k < nchildren(n), child_at(n, k).value == n.value[child_at(n, k).start : child_at(n, k).end])",
    ],
    ih=[
        # induction hypothesis on the remaining children (measure nchildren(n) - k)
        "implies(k < nchildren(n), flat_from(n, k + 1, 0) == n.value)",
        # structural induction hypothesis: the k-th child is itself a clean tree
        "implies(k < nchildren(n), flat_from(child_at(n, k), 0, 0) == child_at(n, k).value)",
    ],
    goal="flat_from(n, k, 0) == n.value",
    notes="induction step of: Clean(n) ==> flat_from(n, k, 0) == n.value for all k; the well-founded order (tree height, then nchildren - k) is the meta-level part",
)


# ------------------------------------------------------------------------------------------------ structural equality (C20)
@spec
def tree_eq(a: "Node", b: "Node", k: int) -> bool:
    """k == -1: the trees at a and b are structurally equal (type, value, obfuscation, start, end and, pairwise, the children; parents are ignored);
    k >= 0: the children of a and b from index k on are pairwise structurally equal."""
    if k < 0:
        return (a.type == b.type and a.value == b.value and a.obfuscation == b.obfuscation and a.start == b.start and a.end == b.end
                and nchildren(a) == nchildren(b) and tree_eq(a, b, 0))
    if k >= nchildren(a):
        return True
    return tree_eq(child_at(a, k), child_at(b, k), -1) and tree_eq(a, b, k + 1)


lemma(
    "children-equal-pairwise",
    props=["C20"],
    vars={"a": "Node", "b": "Node", "k": "int"},
    hyps=["0 <= k <= nchildren(a)"],
    ih=["implies(k < nchildren(a), tree_eq(a, b, k + 1) == forall(range(k + 1, nchildren(a)), lambda j: tree_eq(child_at(a, j), child_at(b, j), -1)))"],
    goal="tree_eq(a, b, k) == forall(range(k, nchildren(a)), lambda j: tree_eq(child_at(a, j), child_at(b, j), -1))",
    notes="induction step on nchildren(a) - k: the recursive fold over the children is the pointwise statement",
)
lemma(
    "tree-eq-reflexive",
    props=["C20"],
    vars={"a": "Node"},
    hyps=[],
    ih=["forall(range(nchildren(a)), lambda j: tree_eq(child_at(a, j), child_at(a, j), -1))"],
    uses=["children-equal-pairwise: a=a; b=a; k=0"],
    goal="tree_eq(a, a, -1)",
    notes="structural induction step (tree height): a tree equals itself; uses children-equal-pairwise at k = 0",
)

contract(
    "multidecoder.node.Node.__eq__",
    props=["C20"],
    types={"self": "Node", "other": "Node"},
    returns="bool",
    requires={"finite-tree": ACYCLIC},
    decreases="height(self)",
    hints={"return": ["children-equal-pairwise: a=self; b=other; k=0", "tree-eq-reflexive: forall j: a=child_at(self, j)"]},
    result_is="tree_eq(self, other, -1)",
    ensures={"structural": "result == tree_eq(self, other, -1)"},
)


# ------------------------------------------------------------------------------------------------ JSON (C20): node_to_dict / as_node
@spec
def dict_is(d: "json", n: "Node", k: int) -> bool:
    """k == -1: the JSON object d records the tree at n (type, value as hex, obfuscation, start, end and, in order, the children);
    k >= 0: the entries of d["children"] from index k on record the children of n from index k on."""
    if k < 0:
        return (d["type"] == n.type and d["value"] == hexstr(n.value) and d["obfuscation"] == n.obfuscation and d["start"] == n.start and d["end"] == n.end
                and len(d["children"]) == nchildren(n) and dict_is(d, n, 0))
    if k >= nchildren(n):
        return True
    return dict_is(d["children"][k], child_at(n, k), -1) and dict_is(d, n, k + 1)


lemma(
    "dict-children-pairwise",
    props=["C20"],
    vars={"d": "json", "n": "Node", "k": "int"},
    hyps=["0 <= k <= nchildren(n)"],
    ih=["implies(k < nchildren(n), dict_is(d, n, k + 1) == forall(range(k + 1, nchildren(n)), lambda j: dict_is(d['children'][j], child_at(n, j), -1)))"],
    goal="dict_is(d, n, k) == forall(range(k, nchildren(n)), lambda j: dict_is(d['children'][j], child_at(n, j), -1))",
    notes="induction step on nchildren(n) - k",
)

contract(
    "multidecoder.json_conversion.node_to_dict",
    props=["C20"],
    types={"node": "Node"},
    returns="json",
    requires={"finite-tree": ACYCLIC},
    decreases="height(node)",
    comp_each={"records-the-child": "dict_is(elem, child_at(node, k_), -1)"},
    hints={"return": ["dict-children-pairwise: d=result; n=node; k=0"]},
    ensures={"records-the-tree": "dict_is(result, node, -1)"},
)


@spec
def tree_is(n: "Node", d: "json", k: int) -> bool:
    """k == -1: the tree at n is the one the JSON object d records, with every child's parent link pointing at its parent;
    k >= 0: the same for the children of n from index k on."""
    if k < 0:
        return (n.type == d["type"] and n.value == fromhex(d["value"]) and n.obfuscation == d["obfuscation"] and n.start == d["start"] and n.end == d["end"]
                and nchildren(n) == len(d["children"]) and tree_is(n, d, 0))
    if k >= nchildren(n):
        return True
    return child_at(n, k).parent == n and tree_is(child_at(n, k), d["children"][k], -1) and tree_is(n, d, k + 1)


@spec
def sub_ge(n: "Node", a0: int, k: int) -> bool:
    """k == -1: every node of the tree at n was allocated at or after a0; k >= 0: the same for the sub-trees of the children of n from index k on."""
    if k < 0:
        return n >= a0 and sub_ge(n, a0, 0)
    if k >= nchildren(n):
        return True
    return sub_ge(child_at(n, k), a0, -1) and sub_ge(n, a0, k + 1)


SAME_FROM = ("forall(cells, lambda r: implies(r >= a0, r.type == old(r.type) and r.value == old(r.value) and r.obfuscation == old(r.obfuscation) and r.start == old(r.start) "
             "and r.end == old(r.end) and r.parent == old(r.parent) and nchildren(r) == old(nchildren(r)) and forall(range(nchildren(r)), lambda c: child_at(r, c) == old(child_at(r, c)))))")

lemma("tree-is-pairwise", props=["C20"], vars={"n": "Node", "d": "json", "k": "int"}, hyps=["0 <= k <= nchildren(n)"],
      ih=["implies(k < nchildren(n), tree_is(n, d, k + 1) == forall(range(k + 1, nchildren(n)), lambda j: child_at(n, j).parent == n and tree_is(child_at(n, j), d['children'][j], -1)))"],
      goal="tree_is(n, d, k) == forall(range(k, nchildren(n)), lambda j: child_at(n, j).parent == n and tree_is(child_at(n, j), d['children'][j], -1))",
      notes="induction step on nchildren(n) - k")
lemma("tree-is-fold", props=["C20"], vars={"n": "Node", "d": "json", "k": "int"},
      hyps=["0 <= k <= nchildren(n)", "forall(range(k, nchildren(n)), lambda j: child_at(n, j).parent == n and tree_is(child_at(n, j), d['children'][j], -1))"],
      ih=["implies(k < nchildren(n) and forall(range(k + 1, nchildren(n)), lambda j: child_at(n, j).parent == n and tree_is(child_at(n, j), d['children'][j], -1)), tree_is(n, d, k + 1))"],
      goal="tree_is(n, d, k)", notes="induction step on nchildren(n) - k (the direction a constructor needs)")
lemma("sub-ge-fold", props=["C20"], vars={"n": "Node", "a0": "int", "k": "int"},
      hyps=["0 <= k <= nchildren(n)", "forall(range(k, nchildren(n)), lambda j: sub_ge(child_at(n, j), a0, -1))"],
      ih=["implies(k < nchildren(n) and forall(range(k + 1, nchildren(n)), lambda j: sub_ge(child_at(n, j), a0, -1)), sub_ge(n, a0, k + 1))"],
      goal="sub_ge(n, a0, k)", notes="induction step on nchildren(n) - k")
lemma("sub-ge-pairwise", props=["C20"], vars={"n": "Node", "a0": "int", "k": "int"}, hyps=["0 <= k <= nchildren(n)"],
      ih=["implies(k < nchildren(n), sub_ge(n, a0, k + 1) == forall(range(k + 1, nchildren(n)), lambda j: sub_ge(child_at(n, j), a0, -1)))"],
      goal="sub_ge(n, a0, k) == forall(range(k, nchildren(n)), lambda j: sub_ge(child_at(n, j), a0, -1))", notes="induction step on nchildren(n) - k")
lemma("sub-ge-mono", props=["C20"], vars={"n": "Node", "a0": "int", "b0": "int", "k": "int"}, hyps=["b0 <= a0", "k == -1 or 0 <= k <= nchildren(n)", "sub_ge(n, a0, k)"],
      ih=["implies(k < 0 and sub_ge(n, a0, 0), sub_ge(n, b0, 0))",
          "implies(0 <= k < nchildren(n) and sub_ge(child_at(n, k), a0, -1), sub_ge(child_at(n, k), b0, -1))",
          "implies(0 <= k < nchildren(n) and sub_ge(n, a0, k + 1), sub_ge(n, b0, k + 1))"],
      goal="sub_ge(n, b0, k)", notes="induction step (tree height, then nchildren(n) - k): a lower bound on the allocation index of a sub-tree can be weakened")
# frame lemmas: a specification function that only reads the sub-tree of n has the same value in two heaps that agree from a0 on, when the sub-tree lies at or after a0
lemma("sub-ge-frame", props=["C20"], vars={"n": "Node", "a0": "int", "k": "int"}, two_heaps=True,
      hyps=[SAME_FROM, "k == -1 or (0 <= k <= nchildren(n) and n >= a0)", "old(sub_ge(n, a0, k))"],
      ih=["implies(k < 0 and n >= a0 and old(sub_ge(n, a0, 0)), sub_ge(n, a0, 0))",
          "implies(0 <= k < nchildren(n) and old(sub_ge(child_at(n, k), a0, -1)), sub_ge(child_at(n, k), a0, -1))",
          "implies(0 <= k < nchildren(n) and old(sub_ge(n, a0, k + 1)), sub_ge(n, a0, k + 1))"],
      goal="sub_ge(n, a0, k)", notes="induction step (tree height, then nchildren(n) - k)")
lemma("tree-is-frame", props=["C20"], vars={"n": "Node", "d": "json", "a0": "int", "k": "int"}, two_heaps=True,
      hyps=[SAME_FROM, "k == -1 or (0 <= k <= nchildren(n) and n >= a0)", "old(sub_ge(n, a0, k))", "old(tree_is(n, d, k))"],
      ih=["implies(k < 0 and n >= a0 and old(sub_ge(n, a0, 0)) and old(tree_is(n, d, 0)), tree_is(n, d, 0))",
          "implies(0 <= k < nchildren(n) and old(sub_ge(child_at(n, k), a0, -1)) and old(tree_is(child_at(n, k), d['children'][k], -1)), tree_is(child_at(n, k), d['children'][k], -1))",
          "implies(0 <= k < nchildren(n) and old(sub_ge(n, a0, k + 1)) and old(tree_is(n, d, k + 1)), tree_is(n, d, k + 1))"],
      goal="tree_is(n, d, k)", notes="induction step (tree height, then nchildren(n) - k)")

contract(
    "multidecoder.json_conversion.as_node",
    props=["C20"],
    types={"d": "json", "parent": "Node|None"},
    returns="Node",
    fresh_nodes=True,
    raises={"ValueError": "True"},
    decreases="jdepth(d)",
    labels={"made": "node.children =", "built": "=node.children ="},
    comp_each={
        "child-is-the-entry": "tree_is(elem, d['children'][k_], -1)",
        "child-points-at-its-parent": "elem.parent == node",
        "child-is-new": "sub_ge(elem, fresh_from, -1)",
    },
    hints={"return node": [
        "tree-is-frame@built: forall j: n=child_at(node, j); d=d['children'][j]; a0=at(made, alloc()); k=-1",
        "sub-ge-frame@built: forall j: n=child_at(node, j); a0=at(made, alloc()); k=-1",
        "sub-ge-mono: forall j: n=child_at(node, j); a0=at(made, alloc()); b0=old(alloc()); k=-1",
        "tree-is-fold: n=node; d=d; k=0",
        "sub-ge-fold: n=node; a0=old(alloc()); k=0",
    ]},
    asserts={"return node": {
        # storing the list of children into `node` leaves every cell allocated after `node` as it was
        "nothing-else-changed": "forall(cells, lambda r: implies(r >= at(made, alloc()), r.type == at(built, r.type) and r.value == at(built, r.value) and r.obfuscation == at(built, r.obfuscation) "
                                "and r.start == at(built, r.start) and r.end == at(built, r.end) and r.parent == at(built, r.parent) and nchildren(r) == at(built, nchildren(r)) "
                                "and forall(range(nchildren(r)), lambda c: child_at(r, c) == at(built, child_at(r, c)))))",
        "children-as-built": "nchildren(node) == len(d['children']) and forall(range(nchildren(node)), lambda j: (lambda c: at(built, tree_is(c, d['children'][j], -1)) "
                             "and at(built, sub_ge(c, at(made, alloc()), -1)) and c.parent == node)(child_at(node, j)))",
        "children-still-match": "forall(range(nchildren(node)), lambda j: tree_is(child_at(node, j), d['children'][j], -1))",
        "children-still-new": "forall(range(nchildren(node)), lambda j: sub_ge(child_at(node, j), at(made, alloc()), -1))",
        "children-new-since-entry": "forall(range(nchildren(node)), lambda j: sub_ge(child_at(node, j), old(alloc()), -1))",
        "fold-premise": "forall(range(nchildren(node)), lambda j: child_at(node, j).parent == node and tree_is(child_at(node, j), d['children'][j], -1))",
        "children-fold": "tree_is(node, d, 0) and sub_ge(node, old(alloc()), 0)",
    }},
    ensures={
        "is-the-recorded-tree": "tree_is(result, d, -1)",
        "parent-link": "result.parent == parent",
        "all-new": "sub_ge(result, old(alloc()), -1)",
    },
)

lemma("hex-inverse", props=["C20"], vars={"x": "bytes"}, hyps=[], goal="fromhex(hexstr(x)) == x", notes="bytes.fromhex undoes bytes.hex", trusted=True)
lemma(
    "json-round-trip",
    props=["C20"],
    vars={"n": "Node", "m": "Node", "d": "json", "k": "int"},
    hyps=["k == -1 or (0 <= k <= nchildren(n) and nchildren(m) == nchildren(n) and len(d['children']) == nchildren(n))", "dict_is(d, n, k)", "tree_is(m, d, k)"],
    ih=["implies(k < 0 and nchildren(m) == nchildren(n) and len(d['children']) == nchildren(n) and dict_is(d, n, 0) and tree_is(m, d, 0), tree_eq(m, n, 0))",
        "implies(0 <= k < nchildren(n) and dict_is(d['children'][k], child_at(n, k), -1) and tree_is(child_at(m, k), d['children'][k], -1), tree_eq(child_at(m, k), child_at(n, k), -1))",
        "implies(0 <= k < nchildren(n) and dict_is(d, n, k + 1) and tree_is(m, d, k + 1), tree_eq(m, n, k + 1))"],
    uses=["hex-inverse: x=n.value"],
    goal="tree_eq(m, n, k)",
    notes="induction step (tree height, then nchildren(n) - k) of: a tree m that is what the JSON object d records, where d records the tree n, is structurally equal to n",
)
