"""Contracts for multidecoder/node.py  (C03, C04, C19, C20, C01)."""
from pyvc.contract import Ghost, Loop, contract, spec
from pyvc.rt import child_at, nchildren  # noqa: F401  (run-time meaning of the spec vocabulary)

# ------------------------------------------------------------------------------------------------ Node.__init__
contract(
    "multidecoder.node.Node.__init__",
    props=["C03", "C20"],
    types={"self": "Node", "type_": "str", "value": "bytes", "obfuscation": "str", "start": "int", "end": "int",
           "parent": "Node|None", "children": "list[Node]"},  # None and [] are indistinguishable to the code (`if children:`)
    requires={"self-not-a-child": "forall(range(len(children)), lambda k: children[k] != self)"},
    modifies={"type": ["self"], "value": ["self"], "obfuscation": ["self"], "start": ["self"], "end": ["self"],
              "parent": ["self", "children"], "children": ["self"]},
    loops={
        1: Loop(
            index="i",
            inv={
                "done": "forall(range(i), lambda k: children[k].parent == self)",
                "frame": "forall(refs, lambda r: implies(not exists(range(len(children)), lambda k: children[k] == r), r.parent == at(pre_L1, r.parent)))",
                "self-fields": "self.type == type_ and self.value == value and self.obfuscation == obfuscation and self.start == start and self.end == end and self.parent == parent",
                "children": "nchildren(self) == len(children) and forall(range(len(children)), lambda k: child_at(self, k) == children[k])",
            },
        )
    },
    ensures={
        "fields": "self.type == type_ and self.value == value and self.obfuscation == obfuscation and self.start == start and self.end == end",
        "parent": "self.parent == parent",
        "children": "nchildren(self) == len(children) and forall(range(len(children)), lambda k: child_at(self, k) == children[k])",
        "children-adopted": "forall(range(len(children)), lambda k: children[k].parent == self)",
    },
)

contract(
    "multidecoder.node.Node.shift",
    props=["C04", "C03"],
    types={"self": "Node"},
    returns="Node",
    modifies={"start": ["self"], "end": ["self"]},
    ensures={
        "shifted": "self.start == old(self.start) + offset and self.end == old(self.end) + offset",
        "returns-self": "result == self",
    },
)

contract(
    "multidecoder.node.Node.original",
    props=["C03", "C04"],
    types={"self": "Node"},
    returns="bytes",
    ensures={
        "slice-of-parent": "result == (self.parent.value[self.start : self.end] if self.parent is not None else self.value)",
        # a redundant consequence, proved here once and then available to callers as a plain integer fact
        "length-in-bounds": "implies(self.parent is not None and 0 <= self.start <= self.end <= len(self.parent.value), len(result) == self.end - self.start)",
    },
)

contract(
    "multidecoder.node.shift_nodes",
    props=["C12", "C03"],
    requires={"distinct": "forall((range(len(nodes)), range(len(nodes))), lambda a, b: implies(a != b, nodes[a] != nodes[b]))"},
    modifies={"start": ["nodes"], "end": ["nodes"]},
    loops={
        1: Loop(
            index="i",
            inv={
                "done": "forall(range(i), lambda k: nodes[k].start == old(nodes[k].start) + offset and nodes[k].end == old(nodes[k].end) + offset)",
                "todo": "forall(range(i, len(nodes)), lambda k: nodes[k].start == old(nodes[k].start) and nodes[k].end == old(nodes[k].end))",
                "frame": "forall(refs, lambda r: implies(not exists(range(len(nodes)), lambda k: nodes[k] == r), r.start == old(r.start) and r.end == old(r.end)))",
            },
        )
    },
    ensures={
        "shifted": "forall(range(len(nodes)), lambda k: nodes[k].start == old(nodes[k].start) + offset and nodes[k].end == old(nodes[k].end) + offset)",
        "same-list": "result == nodes",
    },
)


# ------------------------------------------------------------------------------------------------ flatten (C19)
@spec
def flat_from(n: "Node", k: int, off: int) -> bytes:
    """The property's wording as a fold over the children from index k, `off` = end of the last substituted span."""
    if k >= nchildren(n):
        return n.value[off:]
    c = child_at(n, k)
    if c.start < off:
        return flat_from(n, k + 1, off)  # starts before the end of the last substituted child: skipped
    d = flat_from(c, 0, 0)
    if d == n.value[c.start : c.end]:
        return flat_from(n, k + 1, off)  # flattened value equals the text it covers: left alone
    return n.value[off : c.start] + ((b'"' + d + b'"') if c.type.endswith("string") else d) + flat_from(n, k + 1, c.end)


ACYCLIC = "forall(refs, lambda r: height(r) >= 0 and forall(range(nchildren(r)), lambda k: height(child_at(r, k)) < height(r)))"

contract(
    "multidecoder.node.Node.flatten",
    props=["C19", "C01"],
    types={"self": "Node", "output": "list[bytes]"},
    returns="bytes",
    requires={"finite-tree": ACYCLIC},
    decreases="height(self)",
    loops={
        1: Loop(
            index="k",
            inv={
                "prefix": "bytes_of(output) + flat_from(self, k, offset) == flat_from(self, 0, 0)",
            },
        )
    },
    ensures={"substitutes-exactly": "result == flat_from(self, 0, 0)"},
)

# ------------------------------------------------------------------------------------------------ C19 clean-tree lemma
from pyvc.contract import lemma  # noqa: E402

lemma(
    "C19-clean-tree-flattens-to-its-value",
    props=["C19"],
    vars={"n": "Node", "k": "int"},
    hyps=[
        "0 <= k <= nchildren(n)",
        # Clean(n): the value of every child equals the text it covers
        "implies(k < nchildren(n), child_at(n, k).value == n.value[child_at(n, k).start : child_at(n, k).end])",
    ],
    ih=[
        # induction hypothesis on the remaining children (measure nchildren(n) - k)
        "implies(k < nchildren(n), flat_from(n, k + 1, 0) == n.value)",
        # structural induction hypothesis: the k-th child is itself a clean tree
        "implies(k < nchildren(n), flat_from(child_at(n, k), 0, 0) == child_at(n, k).value)",
    ],
    goal="flat_from(n, k, 0) == n.value",
    notes="induction step of: Clean(n) ==> flat_from(n, k, 0) == n.value for all k; the well-founded order (tree height, then nchildren - k) is the meta-level part",
)


# ------------------------------------------------------------------------------------------------ structural equality (C20)
@spec
def tree_eq(a: "Node", b: "Node", k: int) -> bool:
    """k == -1: the trees at a and b are structurally equal (type, value, obfuscation, start, end and, pairwise, the children; parents are ignored);
    k >= 0: the children of a and b from index k on are pairwise structurally equal."""
    if k < 0:
        return (a.type == b.type and a.value == b.value and a.obfuscation == b.obfuscation and a.start == b.start and a.end == b.end
                and nchildren(a) == nchildren(b) and tree_eq(a, b, 0))
    if k >= nchildren(a):
        return True
    return tree_eq(child_at(a, k), child_at(b, k), -1) and tree_eq(a, b, k + 1)


lemma(
    "children-equal-pairwise",
    props=["C20"],
    vars={"a": "Node", "b": "Node", "k": "int"},
    hyps=["0 <= k <= nchildren(a)"],
    ih=["implies(k < nchildren(a), tree_eq(a, b, k + 1) == forall(range(k + 1, nchildren(a)), lambda j: tree_eq(child_at(a, j), child_at(b, j), -1)))"],
    goal="tree_eq(a, b, k) == forall(range(k, nchildren(a)), lambda j: tree_eq(child_at(a, j), child_at(b, j), -1))",
    notes="induction step on nchildren(a) - k: the recursive fold over the children is the pointwise statement",
)
lemma(
    "tree-eq-reflexive",
    props=["C20"],
    vars={"a": "Node"},
    hyps=[],
    ih=["forall(range(nchildren(a)), lambda j: tree_eq(child_at(a, j), child_at(a, j), -1))"],
    uses=["children-equal-pairwise: a=a; b=a; k=0"],
    goal="tree_eq(a, a, -1)",
    notes="structural induction step (tree height): a tree equals itself; uses children-equal-pairwise at k = 0",
)

contract(
    "multidecoder.node.Node.__eq__",
    props=["C20"],
    types={"self": "Node", "other": "Node"},
    returns="bool",
    requires={"finite-tree": ACYCLIC},
    decreases="height(self)",
    hints={"return": ["children-equal-pairwise: a=self; b=other; k=0", "tree-eq-reflexive: forall j: a=child_at(self, j)"]},
    result_is="tree_eq(self, other, -1)",
    ensures={"structural": "result == tree_eq(self, other, -1)"},
)
