"""Contracts for multidecoder/multidecoder.py - the engine proof (C03-C08, C01, C09).   DESIGN.md section 5.

Vocabulary (all evaluated on the symbolic heap by pyvc, nothing in /repo is edited):
  H            = `results`, the stably sorted hit list;  i = index of the main loop (L2);  a_j, b_j = the span a decoder
                 reported for H[j], i.e. at(pre_L2, H[j].start / .end)
  ctx(k)       = the k-th open context: stack[k] for k < len(stack), the current `node` for k == len(stack); ctx(0) is
                 the scanned node (root0 = old(node))
  ABSK[k]      = GHOST absolute start of ctx(k) (sum of the starts of the enclosing contexts)     - C04
  CIDX[k]      = GHOST index in H of ctx(k) for k >= 1
  DABS         = GHOST absolute end of the last decoded hit (what `decode_end` is meant to hold)   - C05
  own          = GHOST heap field: top node of the pre-assembled structure a node was allocated in (frames)
"""
from pyvc.contract import Ghost, Loop, contract, lemma

# Axioms about bytes.lower() and slicing (true of CPython's bytes by definition; validated at run time), used only as ground
# instances to carry the case-insensitive view of C04 through the nesting (invariant J6).
lemma("lower-commutes-with-slice", props=["C04"], vars={"x": "bytes", "s": "int", "e": "int"}, hyps=["0 <= s <= e <= len(x)"],
      goal="lower(x[s:e]) == lower(x)[s:e]", notes="bytes.lower is pointwise", trusted=True)
lemma("slice-of-slice", props=["C04"], vars={"x": "bytes", "a": "int", "b": "int", "s": "int", "e": "int"}, hyps=["0 <= a <= b <= len(x)", "0 <= s <= e <= b - a"],
      goal="x[a:b][s:e] == x[a + s : a + e]", notes="definition of slicing", trusted=True)
lemma("full-slice", props=["C04"], vars={"x": "bytes"}, hyps=[], goal="x[0 : len(x)] == x", notes="definition of slicing", trusted=True)

# ------------------------------------------------------------------------------------------------ global tree well-formedness
G1 = (
    "forall((refs, ints), lambda p, k: implies(0 <= k < nchildren(p), allocated(child_at(p, k)) and child_at(p, k).parent == p "
    "and 0 <= child_at(p, k).start <= child_at(p, k).end <= len(p.value)))"
)
G2 = "forall((refs, ints, ints), lambda p, k1, k2: implies(0 <= k1 < k2 < nchildren(p), child_at(p, k1) != child_at(p, k2)))"
# GHOST lo/hi: a pre-order interval numbering of each pre-assembled structure (exists for every finite tree); it makes
# "r is in the pre-assembled sub-tree of n" first-order:  insub(n, r) := r.own == n.own and lo(n) <= lo(r) and hi(r) <= hi(n).
# Below `node`, every child link is one the decoder supplied (same owner, nested and pairwise disjoint intervals):
PRE_ASSEMBLED = (
    "forall((refs, ints), lambda r, k: implies(insub(node, r) and 0 <= k < nchildren(r), child_at(r, k).own == node.own "
    "and lo(r) < lo(child_at(r, k)) and lo(child_at(r, k)) <= hi(child_at(r, k)) and hi(child_at(r, k)) <= hi(r))) "
    "and forall((refs, ints, ints), lambda r, k1, k2: implies(insub(node, r) and 0 <= k1 < k2 < nchildren(r), hi(child_at(r, k1)) < lo(child_at(r, k2)))) "
    "and lo(node) <= hi(node)"
)
OWN_ALLOC = "forall(refs, lambda r: allocated(r.own))"
OWN_NEW = "forall(refs, lambda r: implies(r >= old(alloc()), r.own >= old(alloc())))"  # nodes allocated by the call are owned by such nodes

DEFS = {
    "insub": "lambda n, r: r.own == n.own and lo(n) <= lo(r) and hi(r) <= hi(n)",
    "fresh_batch": "lambda r: old(alloc()) <= r and r < at(pre_L2, alloc())",
    "ctx": "lambda k: CTX[k]",  # GHOST list CTX == stack + [node]
    "octx": "lambda k: old.CTX[k]",  # contexts at the loop head (in transition clauses)
    "hctx": "lambda k: at(L2, CTX)[k]",  # contexts at the head of the main loop (inside L3)
    "a_of": "lambda j: at(pre_L2, results[j].start)",
    "b_of": "lambda j: at(pre_L2, results[j].end)",
    "ext": "lambda k: EXTK[k]",  # GHOST absolute end of ctx(k): ABSK[k] + len(ctx(k).value)  (clause J-ext)
    "last": "lambda p: child_at(p, nchildren(p) - 1)",
    "attached": "lambda: hit.parent is not None",
    "is_context": "lambda: hit.parent is not None and node == hit",
    "is_decoded": "lambda: hit.parent is not None and node != hit",
    "pk": "lambda: len(stack) - 1 if node == hit else len(stack)",  # depth of the context the hit was attached to
}

MAIN_INV = {
    # ---- bookkeeping
    "J0-ctx": "len(CTX) == len(stack) + 1 and CTX[len(stack)] == node and forall(range(len(stack)), lambda k: CTX[k] == stack[k])",
    "J0-shape": "len(ABSK) == len(stack) + 1 and len(CIDX) == len(stack) + 1 and len(EXTK) == len(stack) + 1 and 0 <= i <= len(results)",
    "J-ext": "forall(range(len(stack) + 1), lambda k: EXTK[k] == ABSK[k] + len(ctx(k).value))",
    # ---- J6: the case-folded value of every open context is the case-folded slice of the scanned text it denotes (C04)
    "J6-lower-view": "forall(range(len(stack) + 1), lambda k: lower(ctx(k).value) == lower(old(node).value)[ABSK[k] : EXTK[k]])",
    "J5-D-nonneg": "DABS >= 0",
    "J0-untouched": "forall(range(i, len(results)), lambda j: results[j].start == a_of(j) and results[j].end == b_of(j) and results[j].parent is None "
    "and nchildren(results[j]) == at(pre_L2, nchildren(results[j])))",
    "J0-batch-children": "forall(refs, lambda r: implies(fresh_batch(r) and forall(range(i), lambda j: r.own != results[j]), "
    "nchildren(r) == at(pre_L2, nchildren(r)) and forall(range(nchildren(r)), lambda k: child_at(r, k) == at(pre_L2, child_at(r, k)))))",
    "J0-values": "forall(refs, lambda r: implies(r < at(pre_L2, alloc()), r.value == at(pre_L2, r.value) and r.type == at(pre_L2, r.type) and r.own == at(pre_L2, r.own)))",
    "J0-frame-old": "forall(refs, lambda r: implies(r < old(alloc()), r.start == old(r.start) and r.end == old(r.end) and r.parent == old(r.parent) "
    "and r.obfuscation == old(r.obfuscation) and (r == old(node) or (nchildren(r) == old(nchildren(r)) and forall(range(nchildren(r)), lambda k: child_at(r, k) == old(child_at(r, k)))))))",
    # ---- J1: offset is the absolute start of the current context; ctx(0) is the scanned node
    "J1": "ABSK[0] == 0 and offset == ABSK[len(stack)] and ctx(0) == old(node)",
    # ---- J1': the open contexts k >= 1 are earlier hits, at strictly increasing indices (hence pairwise distinct objects)
    "J1p": "forall(range(1, len(stack) + 1), lambda k: 0 <= CIDX[k] < i and ctx(k) == results[CIDX[k]] and (k == 1 or CIDX[k - 1] < CIDX[k]))",
    "J1-distinct": "forall((range(len(stack) + 1), range(len(stack) + 1)), lambda k1, k2: implies(k1 < k2, ctx(k1) != ctx(k2)))",
    "J1-ctx-own": "ctx(0).own < old(alloc()) and ctx(0) < old(alloc()) and forall(range(1, len(stack) + 1), lambda k: ctx(k).own == ctx(k) and fresh_batch(ctx(k)))",
    "J0-hits-own": "forall(range(len(results)), lambda j: results[j].own == results[j] and fresh_batch(results[j]))",
    "J1-ctx-not-pending": "forall((range(len(stack) + 1), range(i, len(results))), lambda k, j: ctx(k) != results[j])",
    "J1-ctx-undecoded": "forall(range(1, len(stack) + 1), lambda k: len(ctx(k).value) == b_of(CIDX[k]) - a_of(CIDX[k]) and ABSK[k] == a_of(CIDX[k]))",
    # ---- J2: contexts are nested
    "J2": "forall(range(len(stack)), lambda k: ABSK[k] <= ABSK[k + 1] and ext(k + 1) <= ext(k))",
    # ---- J3: each context is the LAST child of the one below it, at the relative offset the ghost says
    "J3": "forall(range(len(stack)), lambda k: ctx(k + 1).start == ABSK[k + 1] - ABSK[k] and ctx(k + 1).parent == ctx(k) "
    "and ctx(k + 1).end == ctx(k + 1).start + len(ctx(k + 1).value) "
    "and nchildren(ctx(k)) > 0 and last(ctx(k)) == ctx(k + 1))",
    # ---- J4: sortedness carried forward
    "J4": "forall(range(i, len(results)), lambda j: ABSK[len(stack)] <= a_of(j))",
    "J5-last-start": "forall(range(i, len(results)), lambda j: implies(nchildren(node) > 0, ABSK[len(stack)] + last(node).start <= a_of(j)))",
    "J4x": "forall((range(1, len(stack) + 1), range(i, len(results))), lambda k, j: ABSK[k] < a_of(j) or (ABSK[k] == a_of(j) and ext(k) >= b_of(j)))",
    "J4-sorted": "forall((range(len(results)), range(len(results))), lambda j1, j2: implies(j1 < j2, a_of(j1) < a_of(j2) or (a_of(j1) == a_of(j2) and b_of(j1) >= b_of(j2))))",
    # ---- C06: hits with the same span are processed in registry order (the sort is stable and its key is exactly (start, -end))
    "E4-registry-order-ties": "forall((range(len(results)), range(len(results))), lambda j1, j2: implies(j1 < j2 and a_of(j1) == a_of(j2) and b_of(j1) == b_of(j2), "
    "origin(results, j1) < origin(results, j2)))",
    # ---- J5: decode_end is the ABSOLUTE end of the last decoded hit, and the current context's last child ends at or before it
    "J5-decode-end": "decode_end == DABS",
    "J5-last-end": "implies(nchildren(node) > 0, ABSK[len(stack)] + last(node).end <= DABS)",
    # ---- in-bounds hypothesis on the remaining hits (DecoderOK (b)) relative to the scanned node
    "J-hits-in-bounds": "forall(range(len(results)), lambda j: 0 <= a_of(j) <= b_of(j) <= len(old(node).value))",
    "J-root-children-fresh": "forall(range(nchildren(old(node))), lambda k: fresh_batch(child_at(old(node), k)))",
    # ---- the global tree invariant (C03)
    "G1": G1,
    "G2": G2,
    "G-own": OWN_ALLOC,
    "own-of-new": OWN_NEW,
    "own-after-batch": "forall(refs, lambda r: implies(r >= at(pre_L2, alloc()), r.own >= at(pre_L2, alloc())))",
}

MAIN_STEP = {
    # ------------------------------------------------------------------ C03 (E1)
    "E1-parent-and-bounds": "implies(attached(), hit.parent == octx(pk()) and 0 <= hit.start <= hit.end <= len(hit.parent.value) "
    "and last(hit.parent) == hit)",
    # ------------------------------------------------------------------ C04 (E2): the node denotes exactly [a, b)
    "E2-abs-start": "implies(attached(), old.ABSK[pk()] + hit.start == at(pre_L2, hit.start))",
    "E2-length": "implies(attached(), hit.end - hit.start == at(pre_L2, hit.end) - at(pre_L2, hit.start))",
    # (helper, used through the cut rule) the parent context's case-folded value is the case-folded slice it denotes
    "E2-parent-lower-view": "implies(attached(), lower(hit.parent.value) == lower(old(node).value)[old.ABSK[pk()] : old.EXTK[pk()]] "
    "and old.EXTK[pk()] == old.ABSK[pk()] + len(hit.parent.value) and 0 <= old.ABSK[pk()] and old.EXTK[pk()] <= len(old(node).value))",
    # ... and its original slice equals text[a:b] up to ASCII letter case
    "E2-original-is-the-text-covered": "implies(attached(), lower(hit.parent.value[hit.start : hit.end]) == lower(old(node).value)[at(pre_L2, hit.start) : at(pre_L2, hit.end)])",
    "E2-context-value-is-the-text-covered": "implies(is_context(), lower(hit.value) == lower(old(node).value)[at(pre_L2, hit.start) : at(pre_L2, hit.end)] "
    "and len(hit.value) == at(pre_L2, hit.end) - at(pre_L2, hit.start))",
    "E2-not-moved-otherwise": "implies(not attached(), nchildren(hit) == at(pre_L2, nchildren(hit)))",
    # ------------------------------------------------------------------ C05 (E3): siblings laminar
    "E3-sibling-starts": "implies(attached() and nchildren(hit.parent) >= 2, child_at(hit.parent, nchildren(hit.parent) - 2).start <= hit.start)",
    "E3-sibling-ends": "implies(attached() and nchildren(hit.parent) >= 2, child_at(hit.parent, nchildren(hit.parent) - 2).end < hit.end)",
    "E3-nested-only-under-contexts": "implies(attached() and pk() >= 1, octx(pk()) == results[old.CIDX[pk()]])",
    # ------------------------------------------------------------------ C06 (E4): one step of the reference procedure
    # a hit is dropped iff it ends inside an already-decoded span, or merely restates the context it would be attached to
    "E4-dropped-iff": "iff(not attached(), at(pre_L2, hit.end) <= old.DABS or (at(pre_L2, hit.start) == old.ABSK[pk()] "
    "and hit.value == octx(pk()).value and hit.type == octx(pk()).type))",
    # the chosen parent is the innermost still-open context that contains the hit
    "E4-innermost-containing": "implies(at(pre_L2, hit.end) > old.DABS, at(pre_L2, hit.end) <= old.ABSK[pk()] + len(octx(pk()).value) "
    "and forall(range(pk() + 1, len(old.stack) + 1), lambda k: at(pre_L2, hit.end) > old.EXTK[k]))",
    "E4-contexts-closed": "implies(at(pre_L2, hit.end) > old.DABS, forall(range(pk() + 1), lambda k: ctx(k) == octx(k) and ABSK[k] == old.ABSK[k]))",
    "E4-shadowed-keeps-state": "implies(at(pre_L2, hit.end) <= old.DABS, len(stack) == len(old.stack) and node == old.node and DABS == old.DABS)",
    # decoded (searched recursively, closes nothing below it) iff the value differs from the covered text ignoring case or it has supplied children
    # (read in the state `decided`, right after the hit was attached and before it is searched: the values never change afterwards - J0 - and reading them
    # there keeps the frame of the recursive call out of this clause)
    "E4-decoded-iff": "implies(attached(), iff(is_decoded(), at(decided, lower(hit.value) != lower(hit.parent.value[hit.start : hit.end])) or at(pre_L2, nchildren(hit)) > 0))",
    "E4-decoded-sets-D": "implies(is_decoded(), DABS == at(pre_L2, hit.end) and len(stack) == pk())",
    "E4-context-pushed": "implies(is_context(), len(stack) == pk() + 1 and DABS == old.DABS and ABSK[len(stack)] == at(pre_L2, hit.start))",
    "E4-dropped-D": "implies(not attached(), DABS == old.DABS)",
    # a decoded hit - and nothing else - is searched recursively, with one less depth
    "E4-decoded-is-searched": "iff(is_decoded(), called('scan_node', hit, depth_limit - 1))",
    "E4-nothing-else-is-searched": "implies(not is_decoded(), not called('scan_node'))",
}

POP_INV = {
    "W-prefix": "len(stack) <= at(L2, len(stack)) and forall(range(len(stack)), lambda k: stack[k] == at(L2, stack)[k]) and node == hctx(len(stack))",
    "W-offset": "offset == ABSK[len(stack)]",
    "W-popped-implies-later-start": "implies(len(stack) < at(L2, len(stack)), hit.start > ABSK[len(stack)])",
    "W-popped-too-short": "forall(range(len(stack) + 1, at(L2, len(stack)) + 1), lambda k: hit.end > EXTK[k])",
}

contract(
    "multidecoder.multidecoder.Multidecoder.scan_node",
    props=["C01", "C03", "C04", "C05", "C06", "C07", "C08", "C09"],
    types={"self": "obj:Multidecoder", "node": "Node", "depth_limit": "int", "stack": "list[Node]", "results": "list[Node]"},
    returns="Node",
    defs=DEFS,
    requires={
        "G1": G1,
        "G2": G2,
        "G-own": OWN_ALLOC,
        "pre-assembled": PRE_ASSEMBLED,
    },
    decreases="depth_limit",
    labels={"decided": "if hit.value.lower() != hit.original.lower()"},
    fresh_nodes=True,
    # pre-existing nodes: only `children` lists change, and only inside the pre-assembled structure of `node`
    modifies={"children": ["*"]},
    reads={"node": ["value", "type", "children", "own"]},  # C08: never start / end / parent / obfuscation of the scanned node
    registry_requires={"C07-only-with-budget": "depth_limit > 0"},
    call_site={"scan_node": {"C07-one-less-depth": "callee_depth_limit == depth_limit - 1", "same-engine": "callee_self == self"}},
    loops={
        1: Loop(
            index="ci",
            inv={
                "G1": G1, "G2": G2, "G-own": OWN_ALLOC,
                "frame-children": "forall(refs, lambda r: implies(r < old(alloc()) and not exists(range(ci), lambda j: insub(old(child_at(node, j)), r)), "
                "nchildren(r) == old(nchildren(r)) and forall(range(nchildren(r)), lambda k: child_at(r, k) == old(child_at(r, k)))))",
                "own-of-new": OWN_NEW,
                "frame-fields": "forall(refs, lambda r: implies(r < old(alloc()), r.start == old(r.start) and r.end == old(r.end) and r.parent == old(r.parent) "
                "and r.value == old(r.value) and r.type == old(r.type) and r.own == old(r.own) and r.obfuscation == old(r.obfuscation)))",
            },
        ),
        2: Loop(
            index="i",
            ghosts={
                "CTX": Ghost("list[Node]", "[node]", "old.CTX[: len(stack)] + [node]"),
                "ABSK": Ghost("list[int]", "[0]", "old.ABSK[: len(stack)] + [offset]"),
                "EXTK": Ghost("list[int]", "[len(node.value)]", "old.EXTK[: len(stack)] + [offset + len(node.value)]"),
                "CIDX": Ghost("list[int]", "[0]", "(old.CIDX[: len(stack)] + [old.i]) if node == hit else old.CIDX[: len(stack) + 1]"),
                "DABS": Ghost("int", "0", "(hit.end + offset) if (hit.parent is not None and node != hit) else old.DABS"),
            },
            inv=MAIN_INV,
            transition=MAIN_STEP,
            cut=["E1-parent-and-bounds", "E2-abs-start", "E2-length", "E2-parent-lower-view", "E2-context-value-is-the-text-covered"],
            hints=["full-slice: x=lower(old(node).value)"],
            latch_hints=[
                "lower-commutes-with-slice: x=hit.parent.value; s=hit.start; e=hit.end",
                "slice-of-slice: x=lower(old(node).value); a=old.ABSK[pk()]; b=old.EXTK[pk()]; s=hit.start; e=hit.end",
            ],
        ),
        3: Loop(inv=POP_INV, variant="len(stack)"),
    },
    ensures={
        "returns-the-scanned-node": "result == old(node)",
        "G1": G1,
        "G2": G2,
        "G-own": OWN_ALLOC,
        "own-of-new": OWN_NEW,
        "no-budget-no-change": "implies(depth_limit <= 0, alloc() == old(alloc()) and forall(refs, lambda r: nchildren(r) == old(nchildren(r))))",
        "frame-fields": "forall(refs, lambda r: implies(r < old(alloc()), r.start == old(r.start) and r.end == old(r.end) and r.parent == old(r.parent) "
        "and r.value == old(r.value) and r.type == old(r.type) and r.own == old(r.own) and r.obfuscation == old(r.obfuscation)))",
        "frame-children": "forall(refs, lambda r: implies(r < old(alloc()) and not insub(old(node), r), "
        "nchildren(r) == old(nchildren(r)) and forall(range(nchildren(r)), lambda k: child_at(r, k) == old(child_at(r, k)))))",
    },
)


contract(
    "multidecoder.multidecoder.Multidecoder.scan",
    props=["C01", "C03", "C07", "C09"],
    types={"self": "obj:Multidecoder", "data": "bytes", "depth_limit": "int"},
    returns="Node",
    requires={"G1": G1, "G2": G2, "G-own": OWN_ALLOC},
    fresh_nodes=True,
    modifies={"children": ["*"]},
    ensures={
        # C03: the root carries the unmodified input
        "root-is-fresh": "result >= old(alloc())",
        "root-fields": "result.type == '' and result.value == data and result.obfuscation == '' and result.start == 0 and result.end == len(data) and result.parent is None",
        "G1": G1,
        "G2": G2,
        "pre-existing-untouched": "forall(refs, lambda r: implies(r < old(alloc()), r.start == old(r.start) and r.end == old(r.end) and r.parent == old(r.parent) "
        "and r.value == old(r.value) and r.type == old(r.type) and nchildren(r) == old(nchildren(r))))",
    },
)


contract(
    "multidecoder.registry.build_registry",
    props=["C18"],
    trusted=True,  # assumed here; C18 puts registry.py under contract
    types={"directory": "str", "include": "obj:any", "exclude": "obj:any"},
    returns="obj:registry",
)

contract(
    "multidecoder.multidecoder.Multidecoder.__init__",
    props=["C06"],
    types={"self": "obj:Multidecoder", "decoders": "obj:registry?", "@fork_ifexp": "yes"},
    ensures={
        # C06 is stated for ANY registry the caller supplies, the empty one included
        "keeps-the-given-registry": "implies(decoders is not None, self.decoders is decoders)",
    },
)
