"""Contracts for multidecoder/decoders/network.py - the free-text indicator searchers (C10, C01, C03).

find_urls / parse_url / parse_authority / normalize_* are NOT under contract (bounded stand-ins only: props/netoracles.py).
ipaddress / socket are trusted: their relation is stated once as the assumed contract of is_ip / parse_ip below.
"""
from pyvc.contract import Ghost, Loop, contract, spec
from pyvc.rt import child_at, nchildren  # noqa: F401
from contracts.decoders import EACH, FRESH, DISTINCT, T, decoder

# ---- is_domain: a non-empty name, a dot, and a registered top-level domain (C10)
IS_DOMAIN = ("domain.rfind(b'.') > 0 and domain[domain.rfind(b'.') + 1 :].upper() in TOP_LEVEL_DOMAINS")
contract(
    "multidecoder.decoders.network.is_domain",
    props=["C10", "C01"],
    ensures={"name-dot-registered-tld": "iff(result, " + IS_DOMAIN + ")"},
)

# ---- assumed relation between the standard-library validators (ipaddress.IPv4Address, socket.inet_aton)
contract(
    "multidecoder.decoders.network.is_ip",
    props=["C10"],
    trusted=True,
    types={"ip": "bytes"},
    returns="bool",
    ensures={"canonical-quad": "iff(result, canon_quad(ip))"},
    notes="ASSUMED: IPv4Address(text) accepts exactly the canonical dotted quads (four decimal parts 0-255 without leading zeros)",
)
contract(
    "multidecoder.decoders.network.parse_ip",
    props=["C10", "C03"],
    trusted=True,
    types={"ip": "bytes"},
    returns="Node",
    fresh_nodes=True,
    raises={"ValueError": "not canon_quad(ip)"},
    ensures={
        "fresh": "result >= old(alloc())",
        "fields": "result.type == 'network.ip' and result.start == 0 and result.end == len(ip) and result.parent is None and nchildren(result) == 0",
        "canonical-input-is-its-own-value": "implies(canon_quad(ip), result.value == ip and result.obfuscation == '')",
        "own": "result.own == result",
    },
    notes="ASSUMED: socket.inet_aton accepts every canonical quad and IPv4Address(packed).compressed gives the same text back; "
          "for other inputs parse_ip may raise ValueError or return a normalised value with the ip_obfuscation label",
)
contract("multidecoder.decoders.network.domain_is_false_positive", props=["C01"], returns="bool")

LDH = "matches(rb'[A-Za-z0-9.-]+', node.value)"
decoder("multidecoder.decoders.network.find_domains", ["C01", "C03", "C10"], collector="out",
        each={**T("network.domain", ""), "value-is-the-text-covered": "node.value == data[node.start : node.end]",
              "letters-digits-hyphens-dots": LDH, "at-least-seven": "len(node.value) >= 7",
              "name-dot-registered-tld": IS_DOMAIN.replace("domain", "node.value")})
decoder("multidecoder.decoders.network.find_emails", ["C01", "C03", "C10"],
        each={**T("network.email", ""), "value-is-the-text-covered": "node.value == data[node.start : node.end]", "local-part-at-domain": "matches(rb'(?s)[^@]+@.+', node.value)"})
decoder("multidecoder.decoders.network.find_ips", ["C01", "C03", "C10"], collector="out",
        each={**T("network.ip", ""), "canonical-and-identical-to-the-text-covered": "canon_quad(node.value) and node.value == data[node.start : node.end]"})
