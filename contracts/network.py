"""Contracts for multidecoder/decoders/network.py - the free-text indicator searchers (C10, C01, C03).

find_urls / parse_url / parse_authority / normalize_* are NOT under contract (bounded stand-ins only: props/netoracles.py).
ipaddress / socket are trusted: their relation is stated once as the assumed contract of is_ip / parse_ip below.
"""
from pyvc.contract import Ghost, Loop, contract, spec
from pyvc.rt import child_at, nchildren  # noqa: F401
from contracts.decoders import EACH, FRESH, DISTINCT, T, decoder

# ---- is_domain: a non-empty name, a dot, and a registered top-level domain (C10)
IS_DOMAIN = ("domain.rfind(b'.') > 0 and domain[domain.rfind(b'.') + 1 :].upper() in TOP_LEVEL_DOMAINS")
contract(
    "multidecoder.decoders.network.is_domain",
    props=["C10", "C01"],
    ensures={"name-dot-registered-tld": "iff(result, " + IS_DOMAIN + ")"},
)

# ---- assumed relation between the standard-library validators (ipaddress.IPv4Address, socket.inet_aton)
contract(
    "multidecoder.decoders.network.is_ip",
    props=["C10", "C01"],
    types={"ip": "bytes"},
    returns="bool",
    ensures={"canonical-quad": "iff(result, canon_quad(ip))"},
    notes="verified against the ASSUMED behaviour of ipaddress.IPv4Address(text): it accepts exactly the canonical dotted quads",
)
contract(
    "multidecoder.decoders.network.parse_ip",
    props=["C10", "C03", "C12"],
    types={"ip": "bytes"},
    returns="Node",
    fresh_nodes=True,
    raises={"ValueError": "not canon_quad(ip)"},
    ensures={
        "fresh": "result >= old(alloc())",
        "fields": "result.type == 'network.ip' and result.start == 0 and result.end == len(ip) and result.parent is None and nchildren(result) == 0",
        # labelled as IP-obfuscated exactly when the text was not already the canonical form (C12)
        "label": "result.obfuscation == ('ip_obfuscation' if result.value != ip else '')",
        "canonical-input-is-its-own-value": "implies(canon_quad(ip), result.value == ip and result.obfuscation == '')",
        "own": "result.own == result",
    },
    notes="verified against the ASSUMED behaviour of socket.inet_aton / ipaddress.IPv4Address (see the evidence): a canonical quad is accepted and is its own compressed form",
)
contract("multidecoder.decoders.network.domain_is_false_positive", props=["C01"], returns="bool")

LDH = "matches(rb'[A-Za-z0-9.-]+', node.value)"
decoder("multidecoder.decoders.network.find_domains", ["C01", "C03", "C10"], collector="out",
        each={**T("network.domain", ""), "value-is-the-text-covered": "node.value == data[node.start : node.end]",
              "letters-digits-hyphens-dots": LDH, "at-least-seven": "len(node.value) >= 7",
              "name-dot-registered-tld": IS_DOMAIN.replace("domain", "node.value")})
decoder("multidecoder.decoders.network.find_emails", ["C01", "C03", "C10"],
        each={**T("network.email", ""), "value-is-the-text-covered": "node.value == data[node.start : node.end]", "local-part-at-domain": "matches(rb'(?s)[^@]+@.+', node.value)"})
decoder("multidecoder.decoders.network.find_ips", ["C01", "C03", "C10"], collector="out",
        each={**T("network.ip", ""), "canonical-and-identical-to-the-text-covered": "canon_quad(node.value) and node.value == data[node.start : node.end]"})

# ------------------------------------------------------------------------------------------------ URL parts (C12)
from pyvc.contract import lemma  # noqa: E402

lemma("upper-of-lower", props=["C12"], vars={"x": "bytes"}, hyps=[], goal="x.lower().upper() == x.upper()", notes="bytes.lower / bytes.upper are pointwise ASCII case maps", trusted=True)

contract(
    "multidecoder.decoders.network.parse_ipv6", props=["C12", "C03"], types={"ip": "bytes"}, returns="Node", fresh_nodes=True,
    raises={"ValueError": "True"},
    ensures={"fresh": "result >= old(alloc())", "fields": "result.type == 'network.ipv6' and result.start == 0 and result.end == len(ip) and result.parent is None and nchildren(result) == 0",
             "label": "result.obfuscation == ('ip_obfuscation' if result.value != ip else '')", "own": "result.own == result"},
    notes="verified against the ASSUMED behaviour of socket.inet_pton / ipaddress.IPv6Address (see the evidence)",
)
# normalize_path: the segment stack is a local list; proved here are the clauses of C12 that do not need a list-valued specification function -
# totality, "labelled exactly when a segment was removed", "an absolute path stays absolute", no '.' / '..' left on the stack.  The exact
# stack (which segments cancel which) is compared EXHAUSTIVELY with the dot-segment reference by the bounded stand-in of C12.
DSEG = "unquote(path.split(b'/')[k]).replace(b'/', b'%2F')"
contract(
    "multidecoder.decoders.network.normalize_path",
    props=["C12", "C01"],
    types={"path": "bytes", "segments": "list[bytes]", "dotless": "list[bytes]"},
    returns="tuple[bytes, str]",
    requires={"non-empty": "len(path) > 0"},
    ensures_each={},
    comp_assume={},
    loops={
        1: Loop(
            index="i",
            inv={
                "never-longer": "len(dotless) <= i",
                "same-length-iff-no-dot-segment-so-far": "(len(dotless) == i) == (not exists(range(i), lambda k: segments[k] in (b'.', b'..')))",
                "no-dot-segment-on-the-stack": "forall(range(len(dotless)), lambda k: dotless[k] != b'.' and dotless[k] != b'..')",
                "root-stays": "implies(i >= 1 and segments[0] == b'', len(dotless) >= 1 and dotless[0] == b'')",
                "first-is-first": "implies(i >= 1 and len(dotless) == i, dotless[0] == segments[0])",
            },
        )
    },
    ensures={
        "labelled-exactly-when-a-segment-was-removed": "result[1] == ('url.dotpath' if exists(range(len(path.split(b'/'))), lambda k: " + DSEG + " in (b'.', b'..')) else '')",
        "an-absolute-path-stays-absolute": "implies(path.startswith(b'/'), result[0].startswith(b'/'))",
    },
)

AUTH_EACH = {
    "parentless": "node.parent is None",
    "inside-the-authority": "0 <= node.start and node.start <= node.end and node.end <= len(authority)",
    "no-children": "nchildren(node) == 0",
    "authority-types": "node.type in ('network.url.username', 'network.url.password', 'network.ip', 'network.ipv6', 'network.domain')",
    # user name and password: the span selects the text of the component and the value is that text percent-decoded (C12)
    "userinfo-value": "implies(node.type in ('network.url.username', 'network.url.password'), node.value == unquote(authority[node.start : node.end]))",
    # ... and the component is the one the URL grammar delimits: the user name starts the authority and runs up to the first ':' (or the last '@'),
    "username-position": "implies(node.type == 'network.url.username', node.start == 0 and b':' not in authority[0 : node.end] and authority[node.end : node.end + 1] in (b':', b'@'))",
    # the password sits between the first ':' and the last '@',
    "password-position": "implies(node.type == 'network.url.password', authority[node.start - 1 : node.start] == b':' and b':' not in authority[0 : node.start - 1] "
                         "and authority[node.end : node.end + 1] == b'@' and b'@' not in authority[node.end + 1 :])",
    # and the host starts right after the last '@' (at 0 when there is none)
    "host-position": "implies(node.type in ('network.ip', 'network.domain'), b'@' not in authority[node.start :] and (authority[node.start - 1 : node.start] == b'@' if b'@' in authority else node.start == 0))",
    "domain-length": "implies(node.type == 'network.domain', node.end - node.start == len(node.value))",
}
# what the three destructuring assignments at the top of parse_authority establish, in position form
AUTH_SPLIT = {
    "userinfo-is-a-prefix": "authority[0 : len(userinfo)] == userinfo and len(userinfo) <= len(authority)",
    "at-sign": "(b'@' in authority) == (authority[len(userinfo) : len(userinfo) + 1] == b'@') and b'@' not in address "
               "and (len(userinfo) + 1 + len(address) == len(authority) if b'@' in authority else (userinfo == b'' and address == authority))",
    "address-is-the-suffix": "authority[len(authority) - len(address) :] == address",
    "host-is-a-prefix-of-the-address": "len(host) <= len(address) and address[0 : len(host)] == host",
}
AUTH_USERINFO = {
    "username-is-a-prefix": "len(username) <= len(userinfo) and userinfo[0 : len(username)] == username and b':' not in username",
    "username-delimiter": "(userinfo[len(username) : len(username) + 1] == b':') if b':' in userinfo else (username == userinfo and password == b'')",
    "password-is-the-rest": "implies(b':' in userinfo, len(username) + 1 + len(password) == len(userinfo) and userinfo[len(username) + 1 :] == password)",
}
contract(
    "multidecoder.decoders.network.parse_authority",
    props=["C12", "C03", "C01"],
    types={"@fork_ifexp": "yes", "out": "list[Node]"},
    returns="list[Node]",
    fresh_nodes=True,
    collector="out",
    raises={"ValueError": "True"},
    cuts={
        "if username": {"nothing-yet": "len(out) == 0 and offset == 0", **AUTH_SPLIT, **AUTH_USERINFO},
        "if not host:": {"two-so-far": "len(out) <= 2", "no-userinfo-no-offset": "implies(b'@' not in authority, offset == 0)", **AUTH_SPLIT},
    },
    hints={
        # the user name / the password / the delimiter after the user name are slices of the userinfo, which is a slice of the authority
        "if not host:": [
            "slice-of-slice: x=authority; a=0; b=len(userinfo); s=0; e=len(username)",
            "slice-of-slice: x=authority; a=0; b=len(userinfo); s=len(username) + 1; e=len(userinfo)",
            "slice-of-slice: x=authority; a=0; b=len(userinfo); s=len(username); e=len(username) + 1",
        ]
    },
    ensures_each=AUTH_EACH,
    ensures={"fresh": FRESH, "distinct": DISTINCT, "at-most-four": "len(result) <= 4"},
)

URL_EACH = {
    "parentless": "node.parent is None",
    "inside-the-url-text": "0 <= node.start and node.start <= node.end and node.end <= len(url_text)",
    "no-children": "nchildren(node) == 0",
    # each part's span selects the text of that component of the URL, and its value is that text decoded (C12)
    "scheme": "implies(node.type == 'network.url.scheme', node.start == 0 and node.value == url_scheme(url_text) and url_text[node.start : node.end].lower() == node.value)",
    "scheme-label": "implies(node.type == 'network.url.scheme', node.obfuscation == ('MixedCase' if url_text[0 : node.end] != url_text[0 : node.end].lower() "
                    "and url_text[0 : node.end] != url_text[0 : node.end].upper() else ''))",
    "path-span": "implies(node.type == 'network.url.path', url_text[node.start : node.end] == url_path(url_text))",
    "query": "implies(node.type == 'network.url.query', url_text[node.start : node.end] == url_query(url_text) and node.value == unquote(url_query(url_text)))",
    "fragment": "implies(node.type == 'network.url.fragment', url_text[node.start : node.end] == url_fragment(url_text) and node.value == unquote(url_fragment(url_text)))",
    "userinfo-value": "implies(node.type in ('network.url.username', 'network.url.password'), node.value == unquote(url_text[node.start : node.end]))",
}
# position reached after each component, as a function of the urlsplit decomposition of url_text
P_SCHEME = "(len(url_scheme(url_text)) + 1 if len(url_scheme(url_text)) > 0 else 0)"
P_NETLOC = f"({P_SCHEME} + (2 + len(url_netloc(url_text)) if len(url_netloc(url_text)) > 0 else 0))"
P_PATH = f"({P_NETLOC} + len(url_path(url_text)))"
P_QMARK = f"({P_PATH} + (1 if url_has_query(url_text) else 0))"
P_QUERY = f"({P_QMARK} + len(url_query(url_text)))"
contract(
    "multidecoder.decoders.network.parse_url",
    props=["C12", "C03", "C01"],
    types={"out": "list[Node]"},
    returns="list[Node]",
    fresh_nodes=True,
    collector="out",
    requires={
        "printable-ascii-without-blanks": "matches(rb'[!-~]*', url_text)",
        # find_urls only passes URL_RE matches, whose '//' is followed by a host; parse_url(b'file:///x') mis-places the path (outside C12: no URL node is built from it)
        "authority-not-empty-when-present": "implies(url_has_netloc(url_text), len(url_netloc(url_text)) > 0)",
    },
    raises={"ValueError": "urlsplit_raises(url_text)"},
    cuts={
        "if url.netloc": {
            "position": f"offset == {P_SCHEME}",
            "authority-text": f"implies(url_has_netloc(url_text), url_text[{P_SCHEME} + 2 : {P_SCHEME} + 2 + len(url_netloc(url_text))] == url_netloc(url_text))",
        },
        "if url.path": {"position": f"offset == {P_NETLOC}"},
        "if url_text[offset": {"position": f"offset == {P_PATH}"},
        "if url.query": {"position": f"offset == {P_QMARK}"},
        "if url.fragment": {"position": f"offset == {P_QUERY}"},
    },
    hints={"if url.netloc": ["upper-of-lower: x=url_text[0 : len(url_scheme(url_text))]"],
           "if url.path": [f"slice-of-slice: forall s e: x=url_text; a={P_SCHEME} + 2; b={P_SCHEME} + 2 + len(url_netloc(url_text)); s=s; e=e"]},
    ensures_each=URL_EACH,
    ensures={"fresh": FRESH},
)


# ------------------------------------------------------------------------------------------------ find_urls (C01, C03, C10, C12)
lemma("printable-slice", props=["C12"], vars={"x": "bytes", "a": "int", "b": "int"}, hyps=["matches(rb'[!-~]*', x)"], goal="matches(rb'[!-~]*', x[a:b])",
      notes="a language of the form C* is closed under taking slices", trusted=True)
contract(
    "multidecoder.decoders.network.normalize_percent_encoding.normalize_percent", props=["C10"],
    types={"match": "match:(?i)%([0-9a-f]{2})", "@upper_printable": "yes"}, returns="bytes",
    ensures={"never-longer": "len(result) <= len(match.group(0))", "printable": "matches(rb'[!-~]*', result)",
             # an escape is decoded only when it spells an unreserved character (RFC 3986: ALPHA DIGIT - . _ ~); every other escape is kept, upper-cased (C10)
             "decodes-only-unreserved": "matches(rb'[A-Za-z0-9._~-]', result) or result == match.group(0).upper()"},
)
contract(
    "multidecoder.decoders.network.normalize_percent_encoding", props=["C10", "C12"],
    types={"uri": "bytes"},
    returns="tuple[bytes, str]",
    ensures={"printable-stays-printable": "implies(matches(rb'[!-~]*', uri), matches(rb'[!-~]*', result[0]))", "never-longer": "len(result[0]) <= len(uri)",
             # labelled exactly when normalisation shortened the text (C10)
             "label": "result[1] == ('escape.percent' if len(result[0]) < len(uri) else '')"},
    notes="the substitution itself (re.sub with the nested callback normalize_percent) is ASSUMED as stated in the evidence; value and label are also compared with the reference norm_pct on "
          "every URL of the bounded stand-in (C10)",
)
contract("multidecoder.decoders.network._is_printable", props=["C01"], types={"b": "bytes"}, returns="bool")
contract(
    "multidecoder.decoders.network.is_url",
    props=["C01", "C10", "C12"],
    types={"url": "bytes"},
    returns="bool",
    ensures={
        # what find_urls relies on before it hands the text to parse_url: urlsplit accepts it, and there is a host (so the authority is not empty)
        "accepted-by-urlsplit": "implies(result, not urlsplit_raises(url))",
        "has-an-authority": "implies(result, url_has_netloc(url) and len(url_netloc(url)) > 0)",
        "has-a-host": "implies(result, url_has_host(url))",
        "scheme": "implies(result, url_scheme(url) in (b'http', b'https', b'ftp'))",
    },
)
decoder(
    "multidecoder.decoders.network.find_urls",
    ["C01", "C03", "C10", "C12"],
    collector="out",
    each={**T("network.url", ""), "label": "node.obfuscation in ('', 'escape.percent')", "scheme": "url_scheme(node.value) in (b'http', b'https', b'ftp')",
          "host": "url_has_host(node.value)"},
    types={"out": "list[Node]"},
    asserts={"prev = data[start - 1]": {"the-match-is-printable-ascii": "matches(rb'[!-~]*', group)"}},
    hints={"normalized, obfuscation =": ["printable-slice: x=match.group(); a=0; b=prev", "printable-slice: x=match.group(); a=0; b=close"]},
)


# ---- the languages of the indicator patterns (C11): see the pins in contracts/decoders.py; look-behinds / look-aheads are erased on both sides
def pin(qualname, **pins):
    from pyvc.contract import CONTRACTS

    CONTRACTS[qualname].pins.update(pins)


OCT = rb"(?:0x0*[0-9a-f]{1,2}|0*[0-9]{1,3})"
DOM = rb"(?:[a-z0-9-]+[.])+(?:xn--[a-z0-9]{4,18}|[a-z]{2,12})"
pin("multidecoder.decoders.network.find_ips", IP_RE=rb"(?i)" + OCT + rb"[.]" + OCT + rb"[.]" + OCT + rb"[.]" + OCT)
pin("multidecoder.decoders.network.find_domains", DOMAIN_RE=rb"(?i)" + DOM)
pin("multidecoder.decoders.network.find_emails", EMAIL_RE=rb"(?i)[a-z0-9._%+-]{3,}@" + DOM)
