"""Contracts for multidecoder/decoders/shell.py  (C16, C01, C03)."""
from pyvc.contract import Ghost, Loop, contract, spec
from pyvc.rt import child_at, nchildren  # noqa: F401  (run-time meaning of the spec vocabulary)


@spec
def caret_from(cmd: bytes, i: int, ins: bool) -> bytes:
    """cmd.exe caret removal of cmd[i:], `ins` = inside a double-quoted region (reference, from the property text).

    Outside quotes a caret is dropped and the next character kept literally; a caret before CR LF is a line
    continuation: all three vanish and the character after them is kept literally; a trailing caret is dropped;
    inside quotes carets are literal; a CR ends a quoted region; a double quote toggles the region.
    """
    if i >= len(cmd):
        return b""
    if cmd[i] == 34:
        return cmd[i : i + 1] + caret_from(cmd, i + 1, not ins)
    if cmd[i] == 13:
        return cmd[i : i + 1] + caret_from(cmd, i + 1, False)
    if cmd[i] == 94 and not ins:
        if i + 1 >= len(cmd):
            return b""
        if cmd[i + 1 : i + 3] == b"\r\n":
            if i + 3 >= len(cmd):
                return b""
            return cmd[i + 3 : i + 4] + caret_from(cmd, i + 4, ins)
        return cmd[i + 1 : i + 2] + caret_from(cmd, i + 2, ins)
    return cmd[i : i + 1] + caret_from(cmd, i + 1, ins)


contract(
    "multidecoder.decoders.shell.strip_carets",
    props=["C16", "C01"],
    types={"out": "list[int]"},
    loops={
        1: Loop(
            inv={
                "range": "0 <= i <= len(cmd)",
                "prefix": "bytes_of(out) + caret_from(cmd, i, in_string) == caret_from(cmd, 0, False)",
            },
            variant="len(cmd) - i",
        )
    },
    ensures={"cmd-exe-rules": "result == caret_from(cmd, 0, False)"},
)

contract(
    "multidecoder.decoders.shell.deobfuscate_cmd",
    props=["C16", "C01"],
    returns="tuple[bytes, str]",
    ensures={
        "value": "result[0] == caret_from(cmd, 0, False)",
        "label-iff-changed": "result[1] == ('unescape.shell.carets' if result[0] != cmd else '')",
    },
)


# ------------------------------------------------------------------------------------------------ find_cmd_strings (C16, C03, C01)
@spec
def first_neg(s: bytes, i: int, b: int) -> int:
    """Index of the first byte at or after i at which the parenthesis balance (b before byte i) drops below zero,
    i.e. of the first unbalanced closing parenthesis; len(s) if there is none."""
    if i >= len(s):
        return len(s)
    if s[i] == 41:
        if b - 1 < 0:
            return i
        return first_neg(s, i + 1, b - 1)
    if s[i] == 40:
        return first_neg(s, i + 1, b + 1)
    return first_neg(s, i + 1, b)


from contracts.decoders import EACH, FRESH, DISTINCT  # noqa: E402
from pyvc.contract import lemma  # noqa: E402

lemma(
    "first-neg-range",
    props=["C16"],
    vars={"s": "bytes", "i": "int", "b": "int"},
    hyps=["0 <= i <= len(s)"],
    # induction hypothesis (measure len(s) - i), for whatever balance the next step carries
    ih=["implies(i < len(s), forall(ints, lambda b2: i + 1 <= first_neg(s, i + 1, b2) <= len(s)))"],
    goal="i <= first_neg(s, i, b) <= len(s)",
    notes="induction step of: 0 <= i <= len(s) ==> i <= first_neg(s, i, b) <= len(s)",
)

contract(
    "multidecoder.decoders.shell.find_cmd_strings",
    props=["C16", "C03", "C01"],
    returns="list[Node]",
    fresh_nodes=True,
    collector="cmd_strings",
    types={"split": "list[bytes]"},
    # (the label clause `caret-unescaped iff de-escaping changed the span` needs data[start:end] == full_cmd across the cut, a
    #  slice-of-slice equality the solver does not establish in budget: it is checked by the bounded stand-in of C16 instead)
    ensures_each={**EACH, "type": "node.type == 'shell.cmd'"},
    ensures={"fresh": FRESH, "distinct": DISTINCT},
    loops={
        2: Loop(
            index="j",
            hints=["first-neg-range: s=at(pre_L2, full_cmd); i=j; b=parens"],
            inv={
                # the span ends at the first unbalanced closing parenthesis of the matched text (C16): the scan never runs past it
                "not-past-the-cut": "first_neg(at(pre_L2, full_cmd), 0, 0) >= j",
                "before-the-cut": "full_cmd == at(pre_L2, full_cmd) and end == at(pre_L2, end) "
                "and parens >= 0 and first_neg(at(pre_L2, full_cmd), j, parens) == first_neg(at(pre_L2, full_cmd), 0, 0)",
                "span": "at(pre_L2, end) == start + len(at(pre_L2, full_cmd)) and 0 <= start",
            },
        )
    },
)


# ------------------------------------------------------------------------------------------------ find_powershell_strings (C03, C01; C16 values are bounded)
contract(
    "multidecoder.decoders.shell.find_powershell_strings",
    props=["C03", "C01", "C16"],
    returns="list[Node]",
    fresh_nodes=True,
    collector="out",
    types={"args": "list[bytes]"},
    ensures_each={**EACH},
    ensures={"fresh": FRESH, "distinct": DISTINCT},
)
