"""Contracts for multidecoder/decoders/shell.py  (C16, C01, C03)."""
from pyvc.contract import Ghost, Loop, contract, spec
from pyvc.rt import child_at, nchildren  # noqa: F401  (run-time meaning of the spec vocabulary)


@spec
def caret_from(cmd: bytes, i: int, ins: bool) -> bytes:
    """cmd.exe caret removal of cmd[i:], `ins` = inside a double-quoted region (reference, from the property text).

    Outside quotes a caret is dropped and the next character kept literally; a caret before CR LF is a line
    continuation: all three vanish and the character after them is kept literally; a trailing caret is dropped;
    inside quotes carets are literal; a CR ends a quoted region; a double quote toggles the region.
    """
    if i >= len(cmd):
        return b""
    if cmd[i] == 34:
        return cmd[i : i + 1] + caret_from(cmd, i + 1, not ins)
    if cmd[i] == 13:
        return cmd[i : i + 1] + caret_from(cmd, i + 1, False)
    if cmd[i] == 94 and not ins:
        if i + 1 >= len(cmd):
            return b""
        if cmd[i + 1 : i + 3] == b"\r\n":
            if i + 3 >= len(cmd):
                return b""
            return cmd[i + 3 : i + 4] + caret_from(cmd, i + 4, ins)
        return cmd[i + 1 : i + 2] + caret_from(cmd, i + 2, ins)
    return cmd[i : i + 1] + caret_from(cmd, i + 1, ins)


contract(
    "multidecoder.decoders.shell.strip_carets",
    props=["C16", "C01"],
    types={"out": "list[int]"},
    loops={
        1: Loop(
            inv={
                "range": "0 <= i <= len(cmd)",
                "prefix": "bytes_of(out) + caret_from(cmd, i, in_string) == caret_from(cmd, 0, False)",
            },
            variant="len(cmd) - i",
        )
    },
    ensures={"cmd-exe-rules": "result == caret_from(cmd, 0, False)"},
)

contract(
    "multidecoder.decoders.shell.deobfuscate_cmd",
    props=["C16", "C01"],
    returns="tuple[bytes, str]",
    ensures={
        "value": "result[0] == caret_from(cmd, 0, False)",
        "label-iff-changed": "result[1] == ('unescape.shell.carets' if result[0] != cmd else '')",
    },
)
