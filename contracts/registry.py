"""Contract for multidecoder/registry.py: the selection logic of get_analyzers (C18).

registry.py is glue over pkgutil / importlib / inspect; those are modelled as uninterpreted, deterministic functions (listed in the evidence).  What
is proved is the part that is the repository's own logic: WHICH module is looked into and WHICH member is registered.  Each module info and each
member is visited once, in order, because the two loops are plain `for` loops over the library's results.
"""
from pyvc.contract import contract

# the module is kept: no include list (or an empty one) or its name is listed, and no exclude list (or an empty one) or its name is not listed
KEEP = "(not old(include) or submod_info.name in old(include)) and (not old(exclude) or submod_info.name not in old(exclude))"

contract(
    "multidecoder.registry.get_analyzers",
    props=["C18"],
    types={"@fork_ifexp": "yes", "include": "strs?", "exclude": "strs?", "decoders": "list[obj:function]"},
    returns="list[obj:function]",
    asserts={
        # a module is skipped only when the configuration says so ...
        "continue": {"skipped-only-when-not-selected": f"not ({KEEP})"},
        # ... and looked into only when it is selected
        "submodule = importlib": {"imported-only-when-selected": KEEP},
        # what is registered is a member of a selected module that carries the registration mark
        "decoders.append(function)": {"registered-only-when-selected-and-marked": f"({KEEP}) and hasattr(function, '_decoder')"},
    },
    ensures={"a-list": "len(result) >= 0"},
)
