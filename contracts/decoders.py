"""DecoderOK for the shipped decoders (C01 no-raise, C03 spans) and their value contracts (C13-C15).

`decoder(...)` registers the standard contract of a registry entry: it raises nothing, allocates only fresh nodes,
writes no pre-existing node (write frame), and every returned node is parentless, lies inside the data it was given,
and carries only well-formed, childless, fresh children.
"""
from pyvc.contract import Ghost, Loop, contract, spec
from pyvc.rt import child_at, nchildren  # noqa: F401

EACH = {
    "parentless": "node.parent is None",
    "in-bounds": "0 <= node.start <= node.end <= len(data)",
    "children-wf": "forall(range(nchildren(node)), lambda k: child_at(node, k).parent == node and 0 <= child_at(node, k).start "
    "and child_at(node, k).start <= child_at(node, k).end and child_at(node, k).end <= len(node.value) "
    "and child_at(node, k) >= old(alloc()) and child_at(node, k) < alloc() and nchildren(child_at(node, k)) == 0)",
}
DISTINCT = "forall((range(len(result)), range(len(result))), lambda k1, k2: implies(k1 < k2, result[k1] != result[k2]))"
FRESH = "forall(range(len(result)), lambda k: result[k] >= old(alloc()))"


def decoder(qualname, props, collector=None, each=None, **kw):
    e = dict(EACH)
    e.update(each or {})
    ens = {"fresh": FRESH}
    if collector:
        ens["distinct"] = DISTINCT
    ens.update(kw.pop("ensures", {}))
    return contract(qualname, props=props, returns="list[Node]", fresh_nodes=True, collector=collector, ensures_each=e, ensures=ens, **kw)


# ---- hit.py helpers are inlined at their call sites, so that pattern and group numbers are constants there
contract("multidecoder.hit.match_to_hit", inline=True)
contract("multidecoder.hit.regex_hits", inline=True)
contract("multidecoder.hit.find_and_deobfuscate", inline=True)

# ---- plain regex searchers
decoder("multidecoder.decoders.filename.find_executable_name", ["C01", "C03", "C11"])
decoder("multidecoder.decoders.filename.find_library", ["C01", "C03", "C11"])
decoder("multidecoder.decoders.path.find_path", ["C01", "C03", "C11"])

T = lambda t, o: {"type": f"node.type == {t!r}", "label": f"node.obfuscation == {o!r}"}  # noqa: E731

contract("multidecoder.decoders.filename.find_executable_name", props=["C01", "C03", "C11"], returns="list[Node]", fresh_nodes=True,
         ensures_each={**EACH, **T("executable.filename", ""), "value-is-the-text-covered": "node.value == data[node.start : node.end]"},
         ensures={"fresh": FRESH, "one-node-per-match": "len(result) == nmatches(EXECUTABLE_RE, data)"})
contract("multidecoder.decoders.filename.find_library", props=["C01", "C03", "C11"], returns="list[Node]", fresh_nodes=True,
         ensures_each={**EACH, **T("executable.filename", ""), "value-is-the-text-covered": "node.value == data[node.start : node.end]"},
         ensures={"fresh": FRESH, "one-node-per-match": "len(result) == nmatches(LIBRARY_RE, data)"})
contract("multidecoder.decoders.path.find_path", props=["C01", "C03", "C11"], returns="list[Node]", fresh_nodes=True,
         ensures_each={**EACH, **T("path", ""), "value-is-the-text-covered": "node.value == data[node.start : node.end]"},
         ensures={"fresh": FRESH, "one-node-per-match": "len(result) == nmatches(PATH_RE, data)"})

# ---- hexadecimal (C13): the node covers the digit run and its value is the bytes spelled by the digits
decoder("multidecoder.decoders.hex.find_hex", ["C01", "C03", "C13"],
        each={**T("", "decoded.hexadecimal"), "value-is-unhexlify-of-the-text-covered": "node.value == unhexlify(data[node.start : node.end])"},
        # the converse half of C13 for hexadecimal runs, relative to the regex contract: no match of the pattern is dropped
        ensures={"one-node-per-match": "len(result) == nmatches(HEX_RE, data)"})

# ---- javascript unescape (C14)
decoder("multidecoder.decoders.javascript.find_unescape", ["C01", "C03", "C14"],
        each={**T("string", "function.unescape"), "value-is-the-percent-decoded-argument": "node.value == unquote(data[node.start + 10 : node.end - 2])"},
        ensures={"one-node-per-match": "len(result) == nmatches(UNESCAPE_RE, data)"})

# ---- utf-16 (C14)
decoder("multidecoder.decoders.codec.find_utf16", ["C01", "C03", "C14"],
        each={**T("", "codec.uft-16"), "value-is-utf8-of-the-utf16-text-covered": "node.value == utf8(utf16(data[node.start : node.end]))"},
        ensures={"one-node-per-match": "len(result) == nmatches(UTF16_RE, data)"})

# ---- chr (C14)
decoder("multidecoder.decoders.chr.find_chr", ["C01", "C03", "C14"], collector="out", each={**T("string", "function.chr")})

# ---- xml numeric character references (C14)
contract("multidecoder.decoders.xml.unescape_xml", props=["C01", "C14"],
         requires={"is-a-match-of-the-pattern": "matches(XML_ESCAPE_RE, data)"},
         # A-delim (trusted, validated at run time on sampled members of the language): for data in (&#G;){5,} with G free of
         # '&', '#', ';' the pieces of data.replace(b"&#", b"").split(b";")[:-1] are exactly the G-words
         comp_assume={"x": "matches_group(XML_ESCAPE_RE, 1, x)"})
decoder("multidecoder.decoders.xml.find_xml_hex", ["C01", "C03", "C14"], each={**T("", "unescape.xml")})

# ---- reverse (C15)
# the value is the reversed content of the string literal (group 1 of the pattern without its two quotes): C15
REVERSED = {"value-is-the-reversed-literal": "node.value == rev(match.group(1)[1:-1])"}
decoder("multidecoder.decoders.reverse.find_reverse", ["C01", "C03", "C15"], each={**T("string", "reverse")}, each_local=REVERSED)
decoder("multidecoder.decoders.vba.find_strreverse", ["C01", "C03", "C15"], each={**T("vba.string", "vba.reverse")}, each_local=REVERSED)
decoder("multidecoder.decoders.vba.find_createobject", ["C01", "C03", "C11"], collector="out",
        each={**T("vba.function.createobject", ""), "value-is-the-text-covered": "node.value == data[node.start : node.end]"})

# ---- concat / replace (C15)
decoder("multidecoder.decoders.concat.find_concat", ["C01", "C03", "C15"], each={**T("string", "concatenation")})
decoder("multidecoder.decoders.replace.find_replace", ["C01", "C03", "C15"], each={**T("string", "replace")})
decoder("multidecoder.decoders.replace.find_powershell_replace", ["C01", "C03", "C15"], each={**T("powershell.string", "replace")})
decoder("multidecoder.decoders.replace.find_vba_replace", ["C01", "C03", "C15"], each={**T("vba.string", "vba.replace")})
decoder("multidecoder.decoders.replace.find_js_regex_replace", ["C01", "C03", "C15"], each={**T("javascript.string", "replace")})

# ---- base64 call forms (C13)
# the node covers the whole call and its value is the decoding of exactly the quoted argument
decoder("multidecoder.decoders.base64.find_atob", ["C01", "C03", "C13"], collector="out",
        each={**T("javascript.string", "encoding.base64"), "value-is-b64decode-of-the-argument": "node.value == b64decode(data[node.start + 6 : node.end - 2])"})
decoder("multidecoder.decoders.base64.find_Base64Decode", ["C01", "C03", "C13"], collector="out",
        each={**T("vba.string", "encoding.base64"), "value-is-b64decode-of-the-argument": "node.value == b64decode(data[node.start + 14 : node.end - 2])"})
decoder("multidecoder.decoders.base64.find_base64", ["C01", "C03", "C13"], collector="b64_matches", each={**T("", "encoding.base64")})

# ---- xor helper (C13): the child is the parent's bytes XORed with the stated single-byte key
contract(
    "multidecoder.xor_helper.apply_xor_key",
    props=["C01", "C03", "C13"],
    types={"xorkey": "int", "data": "bytes", "node": "Node", "new_node_type": "str"},
    returns="Node",
    fresh_nodes=True,
    modifies={"children": ["node"]},
    requires={"key-is-a-number-the-caller-read": "0 <= xorkey <= 999", "data-is-the-node-value": "len(data) == len(node.value)"},
    ensures={
        "returns-the-node": "result == node",
        # either no child is added (key outside a byte) or exactly one well-formed child spanning the whole value
        "at-most-one-child-added": "nchildren(node) == old(nchildren(node)) or nchildren(node) == old(nchildren(node)) + 1",
        "child-wf": "implies(nchildren(node) == old(nchildren(node)) + 1, child_at(node, nchildren(node) - 1).parent == node "
        "and child_at(node, nchildren(node) - 1).start == 0 and child_at(node, nchildren(node) - 1).end == len(data) "
        "and len(child_at(node, nchildren(node) - 1).value) == len(data) and child_at(node, nchildren(node) - 1) >= old(alloc()) "
        "and child_at(node, nchildren(node) - 1) < alloc() and nchildren(child_at(node, nchildren(node) - 1)) == 0)",
        "earlier-children-kept": "forall(range(old(nchildren(node))), lambda k: child_at(node, k) == old(child_at(node, k)))",
        "single-byte-key": "implies(nchildren(node) == old(nchildren(node)) + 1, 0 <= xorkey <= 255)",
    },
)

# ---- xor key reader and the PowerShell call forms (C13)
contract(
    "multidecoder.xor_helper.get_xorkey",
    props=["C13", "C01"],
    returns="int|None",
    ensures={"a-number-of-at-most-three-digits": "result is None or 0 <= result <= 999"},
)

contract(
    "multidecoder.decoders.base64.pad_base64",
    props=["C13"],
    ensures={
        "multiple-of-four": "len(result) % 4 == 0",
        "unchanged-when-aligned": "implies(len(b64) % 4 == 0, result == b64)",
        "one-char-dropped-when-corrupt": "implies(len(b64) % 4 == 1, result == b64[: len(b64) - 1])",
        "padded-otherwise": "implies(len(b64) % 4 >= 2, len(result) == len(b64) + (4 - len(b64) % 4) and result[: len(b64)] == b64)",
    },
)

XOR_CHILD = ("forall(range(nchildren(node)), lambda k: child_at(node, k).parent == node and child_at(node, k).start == 0 "
             "and child_at(node, k).end == len(node.value) and len(child_at(node, k).value) == len(node.value))")
decoder("multidecoder.decoders.base64.find_FromBase64String", ["C01", "C03", "C13"], collector="out",
        each={**T("powershell.bytes", "encoding.base64"), "at-most-one-xor-child-spanning-the-value": "nchildren(node) <= 1 and " + XOR_CHILD})
decoder("multidecoder.decoders.hex.find_FromHexString", ["C01", "C03", "C13"], collector="out",
        each={**T("powershell.bytes", "encoding.hexidecimal"), "at-most-one-xor-child-spanning-the-value": "nchildren(node) <= 1 and " + XOR_CHILD})

# ---- windows paths (C03 / C12): DecoderOK spans; the list indexes into the normalised path are NOT proved (ntpath.normpath is opaque)
contract("ntpath.normpath", props=["C12"], trusted=True, types={"path": "bytes"}, returns="bytes", notes="ASSUMED total on bytes")
contract("ntpath.splitext", props=["C12"], trusted=True, types={"p": "bytes"}, returns="tuple[bytes, bytes]", notes="ASSUMED total on bytes")
decoder(
    "multidecoder.decoders.path.find_windows_path",
    ["C01", "C03", "C12"],
    collector="output",
    types={"output": "list[Node]", "children": "list[Node]"},
    each={"label": "node.obfuscation in ('', 'windows.dotpath')", "type": "node.type in ('windows.device.path', 'windows.unc.path', 'windows.path')",
          # the file-name child is the LAST len(filename) bytes of the normalised value (C12); that those bytes are its value, and the host children, are
          # compared by the bounded Windows-path oracle (the text equality needs the position of the last split piece through ntpath.normpath's opaque result)
          "file-name-child-ends-the-value": "forall(range(nchildren(node)), lambda k: (lambda c: implies(c.type not in ('network.ip', 'network.domain'), "
                                            "c.end == len(node.value) and c.end - c.start == len(c.value)))(child_at(node, k)))"},
    # a device path starts with two separators and a '.' or '?': the first two pieces are empty and the third is not
    asserts={"path_type = 'windows.device.path'": {"device-prefix-occupies-a-segment": "implies(len(segments) >= 3, len(segments[2]) >= 1)"}},
)

# ---- embedded PE files (C01 / C03 / C11): the span arithmetic; pefile itself is trusted
contract("multidecoder.decoders.pe_file.pe_size", props=["C01", "C03"], trusted=True, types={"pe_data": "bytes"}, returns="int",
         ensures={"non-negative": "result >= 0"},
         notes="ASSUMED: pefile.PE raises only PEFormatError (caught) and section offsets / sizes are unsigned, so the result is a non-negative integer")
decoder(
    "multidecoder.decoders.pe_file.find_pe_files",
    ["C01", "C03", "C11"],
    collector="pe_files",
    types={"pe_files": "list[Node]"},
    each={**T("pe_file", ""), "value-is-the-text-covered": "node.value == data[node.start : node.end]", "not-empty": "node.start < node.end"},
)

# ---- PowerShell byte arrays (C01 / C03 / C13): spans and children; the key search itself (xortool: floats, itertools) is trusted
contract("multidecoder.xortool.xortool", props=["C13"], trusted=True, types={"ciphertext": "bytes", "known_key_lengths": "list[int]"}, returns="list[bytes]",
         notes="ASSUMED total (see the recorded limit limit-xortool: its key space can blow up); the value of the guessed plaintext is covered by the bounded multibyte-xor stand-in of C13")
decoder(
    "multidecoder.decoders.powershell.find_powershell_bytes",
    ["C01", "C03", "C13"],
    collector="out",
    types={"out": "list[Node]"},
    each={**T("powershell.bytes", ""),
          # a decoded child spans the whole value of ITS OWN node (C13: the xor is applied to the bytes of the array it hangs under)
          "children-span-the-value": "forall(range(nchildren(node)), lambda k: child_at(node, k).start == 0 and child_at(node, k).end == len(node.value))"},
)


# ---- the language of the pattern constants (C11 / C13 / C14): every other clause is stated RELATIVE to the constant, so a change of the constant itself
# would be invisible.  Each pin is written from the wording of the property, deliberately not as a copy of the source text: the obligation is the
# equivalence of two regular languages (look-arounds / anchors erased on both sides), not a comparison of texts.
def pin(qualname, **pins):
    from pyvc.contract import CONTRACTS

    CONTRACTS[qualname].pins.update(pins)


pin("multidecoder.decoders.filename.find_executable_name", EXECUTABLE_RE=rb"(?i)[a-z0-9_]+[.]exe")
pin("multidecoder.decoders.filename.find_library", LIBRARY_RE=rb"(?i)[a-z0-9_]+[.]dll")
pin("multidecoder.decoders.path.find_path", PATH_RE=rb"[.]{0,2}/(?:[A-Za-z0-9_]{3,}/)+[A-Za-z0-9_.]{3,}")
pin("multidecoder.decoders.hex.find_hex", HEX_RE=rb"(?:[0-9a-f][0-9a-f]){10,}|(?:[0-9A-F][0-9A-F]){10,}")
pin("multidecoder.decoders.javascript.find_unescape", UNESCAPE_RE=rb"unescape[(]'[^']*'[)]")
pin("multidecoder.decoders.chr.find_chr", CHR_RE=rb"(?i)chr(?:b|w|)[(]0*[0-9]{1,5}[)]")
pin("multidecoder.decoders.xml.find_xml_hex", XML_ESCAPE_RE=rb"(?i)(?:&#(?:x[0-9a-f]{2}|25[0-5]|2[0-4][0-9]|[01]?[0-9]{1,2});){5,}")
pin("multidecoder.decoders.codec.find_utf16",
    UTF16_RE=rb"(?s)(?:[\x09-\x0d\x20-\x7e\xa0-\xff]\x00){7,}(?:\x00\x00(?:\x00\x00)?(?:[\x09-\x0d\x20-\x7e\xa0-\xff]\x00){7,})*")

# C13: the call forms named by the property and the bare base64 shape (a run of at least five groups of four or more alphabet characters, each optionally followed by
# the wide-character artefact, an escaped or literal CR and an escaped or literal LF, then two or more alphabet characters and up to two '=')
B64 = rb"[A-Za-z0-9+/]"
pin("multidecoder.decoders.base64.find_atob", ATOB_RE=rb"atob[(](?:'|\")" + B64 + rb"+={0,2}(?:'|\")[)]")
pin("multidecoder.decoders.base64.find_Base64Decode", BASE64DECODE_RE=rb"(?i)base64decode[(](?:'|\")[a-z0-9+/]+={0,2}(?:'|\")[)]")
pin("multidecoder.decoders.base64.find_FromBase64String",
    FROMB64STRING_RE=rb"(?i)(?:\[System.Convert\]::|)FromBase64String[(](?:'|\")[a-z0-9+/]+={0,2}(?:'|\")[)]")
pin("multidecoder.decoders.hex.find_FromHexString",
    FROMHEXSTRING_RE=rb"(?i)(?:\[System.Convert\]::|)FromHexString[(]'(?:(?:[0-9a-f][0-9a-f]){10,})'[)]")
pin("multidecoder.decoders.base64.find_base64",
    BASE64_RE=rb"(?:" + B64 + rb"{4,}(?:<\x00  \x00|)(?:&#13;|&#xD;|)(?:&#10;|&#xA;|)\r{0,1}\n{0,1}){5,}" + B64 + rb"{2,}={0,2}")

# C15 / C11: string literals (a doubled quote, a back-tick pair, a backslash pair are escapes inside double quotes; only the doubled quote inside single quotes), the
# joining operators with optional blanks / line-continuation underscores, the reverse call forms, CreateObject, dotted quads, domains, e-mail addresses
DQ = rb'"(?:[^"`\\]|""|`.|\\[^"]|\\"{1,2})*"'
SQ = rb"'(?:[^']|'')*'"
LIT = rb"(?:" + SQ + rb"|" + DQ + rb")"
SPACER = rb"[\s_]*(?:&amp;|[+]|&)[\s_]*"
pin("multidecoder.decoders.concat.find_concat", CONCAT_SPACER_RE=SPACER, STRING_RE=LIT, CONCAT_RE=LIT + rb"(?:" + SPACER + LIT + rb")+")
pin("multidecoder.decoders.reverse.find_reverse", REVERSE_RE=rb"(?i)reverse(?:d|)[(]\s*" + LIT + rb"\s*[)]")
pin("multidecoder.decoders.vba.find_strreverse", STRREVERSE_RE=rb"(?i)strreverse[(]\s*" + LIT + rb"\s*[)]")
pin("multidecoder.decoders.vba.find_createobject", CREATE_OBJECT_RE=rb"(?i)CREATEOBJECT[(]")
