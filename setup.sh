#!/bin/bash
# Builds /verif/.venv (python 3.12) offline: z3-solver, jsonschema (+deps) from the wheelhouse, and a .pth that
# makes /venv's site-packages (regex, pefile, the editable multidecoder install) importable.
set -e
cd "$(dirname "$0")"
V=.venv
if [ -x $V/bin/python ] && $V/bin/python -c "import z3, regex, pefile, multidecoder, jsonschema" 2>/dev/null; then
  exit 0
fi
rm -rf $V
/venv/bin/python -m venv $V
export PIP_NO_INDEX=1
$V/bin/python -m pip install -q --no-index --find-links /opt/veriftools/wheels z3-solver jsonschema crosshair-tool deal icontract hypothesis >/dev/null
SP=$($V/bin/python -c "import site; print(site.getsitepackages()[0])")
echo "import site; site.addsitedir('/venv/lib/python3.12/site-packages')" > $SP/zz_repo_venv.pth
$V/bin/python -c "import z3, regex, pefile, multidecoder, jsonschema; print('setup ok', z3.get_version_string())"
