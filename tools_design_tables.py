"""Regenerates the two machine-made tables of DESIGN.md (between the BEGIN/END markers) from evidence/*.json and seeded/*/meta.json.

    .venv/bin/python tools_design_tables.py          # rewrites DESIGN.md in place
"""
import glob
import importlib
import json
import os
import re
import sys

ROOT = os.path.dirname(os.path.abspath(__file__))
sys.path.insert(0, ROOT)


def table0():
    rows = ["| id | functions under contract (obligations discharged on the repaired tree) | back ends | bounded stand-ins next to it (evaluations) | claimed level |",
            "|----|------|------|------|------|"]
    for k in range(1, 21):
        pid = f"C{k:02d}"
        mod = importlib.import_module(f"props.{pid}")
        if getattr(mod, "NOT_APPLICABLE", None):
            rows.append(f"| {pid} | — | — | — | **not applicable** (reason in MANIFEST.json and section 6) |")
            continue
        ev = json.load(open(os.path.join(ROOT, "evidence", f"{pid}.json")))
        cov = ev["coverage"]
        fns = cov.get("functions_under_contract", {})
        names = [f"`{q.split('multidecoder.')[-1].replace('decoders.', '')}`" for q in fns]
        short = (f"{len(names)} functions: " + ", ".join(names[:6]) + (f", … (+{len(names) - 6}, listed in the evidence)" if len(names) > 6 else "")) if names else "—"
        be = cov.get("by_backend", {})
        z3n = sum(v for b, v in be.items() if b.startswith("z3"))
        c5n = sum(v for b, v in be.items() if b.startswith("cvc5"))
        bounded = "; ".join(f"{b['name'].replace('bounded_', '')} ({b['evaluations']})" for b in cov.get("bounded", [])) or "—"
        kf = len(cov.get("known_finding_obligations", []))
        n = f"{cov.get('discharged', 0)} of {cov.get('obligations', 0)}" + (f" (+{kf} inside recorded findings)" if kf else "")
        hits = cov.get("cache_hits", 0)
        rows.append(f"| {pid} | {n}: {short} | z3 {z3n}, cvc5 {c5n}" + (f" ({hits} of them cache hits in this run)" if hits else f"; {round(cov.get('solver_time_s', 0))} s solver time") + f" | {bounded} | {getattr(mod, 'LEVEL', '')} |")
    return "\n".join(rows)


def table12():
    rows = ["| change | breaks | needs | detected by | last full run: exit code(s); VIOLATION lines from obligations / from stand-ins |", "|--------|--------|-------|-------------|------|"]
    for d in sorted(glob.glob(os.path.join(ROOT, "seeded", "*", "meta.json"))):
        m = json.load(open(d))
        lr = m.get("last_run")
        last = f"{lr['exit_codes']}; {lr['violation_lines_from_obligations']} / {lr['violation_lines_from_bounded_stand_ins']}" if lr else "—"
        rows.append(f"| {m['id']} | {m['breaks_property']} | {m['needs_to_manifest']} | {m['detected_by']} | {last} |")
    return "\n".join(rows)


def main():
    p = os.path.join(ROOT, "DESIGN.md")
    s = open(p).read()
    for name, fn in (("TABLE0", table0), ("TABLE12", table12)):
        a, b = f"<!-- BEGIN:{name} -->", f"<!-- END:{name} -->"
        if a not in s:
            print(f"marker {name} missing")
            continue
        s = re.sub(re.escape(a) + r".*?" + re.escape(b), lambda _m: a + "\n" + fn() + "\n" + b, s, flags=re.S)
    open(p, "w").write(s)


if __name__ == "__main__":
    main()
