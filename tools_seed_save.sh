#!/bin/bash
# tools_seed_save.sh <name e.g. C05_mut1> <property> "<needs>" "<detected by>"
# Confirms a seeded change in a scratch worktree (applies, 308 tests pass, demo fails with it and passes without), then
# stores it under /verif/seeded/<name>/ (patch.diff, demo.py, meta.json).  The worktree is removed afterwards.
name=$1; prop=$2; needs=$3; detected=$4
src=/tmp/wt
wt=/tmp/wt/confirm_$name
git -C /repo worktree add -q --detach $wt HEAD || exit 9
trap "git -C /repo worktree remove --force $wt" EXIT
if ! git -C $wt apply --check $src/$name.diff 2>/dev/null; then echo "$name: patch does not apply to current HEAD"; exit 2; fi
PYTHONPATH=$wt/src /venv/bin/python $src/${name}_demo.py >/dev/null 2>&1; clean_rc=$?
git -C $wt apply $src/$name.diff
tests=$(cd $wt && PYTHONPATH=$wt/src /venv/bin/python -m pytest -q -p no:cacheprovider 2>&1 | tail -1)
PYTHONPATH=$wt/src /venv/bin/python $src/${name}_demo.py >/tmp/wt/${name}_demo.out 2>&1; mut_rc=$?
echo "$name: tests='$tests' demo clean rc=$clean_rc mutated rc=$mut_rc"
case "$tests" in *"308 passed"*) ;; *) echo "  tests do not pass -> not kept"; exit 3;; esac
if [ $clean_rc -ne 0 ] || [ $mut_rc -eq 0 ]; then echo "  demonstration does not discriminate -> not kept"; exit 4; fi
d=/verif/seeded/$name; mkdir -p $d
cp $src/$name.diff $d/patch.diff; cp $src/${name}_demo.py $d/demo.py
python3 - "$name" "$prop" "$needs" "$detected" "$tests" <<'PY'
import json, sys
name, prop, needs, detected, tests = sys.argv[1:6]
json.dump({"id": name, "breaks_property": prop, "needs_to_manifest": needs,
           "confirmed": {"applies_to": "repo HEAD at confirmation time", "test_suite": tests, "demo": "exit 0 on the unchanged tree, exit 1 with the change"},
           "ran": f"git -C /repo apply seeded/{name}/patch.diff && ./check {prop} --tier quick ; git -C /repo checkout -- .",
           "detected_by": detected}, open(f"/verif/seeded/{name}/meta.json", "w"), indent=1)
PY
echo "  kept in $d"
