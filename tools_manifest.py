#!/usr/bin/env python3
"""Regenerates MANIFEST.json from props/*.py (claimed checks) and the NOT_APPLICABLE table below."""
import importlib, json, os, sys
ROOT = os.path.dirname(os.path.abspath(__file__))
sys.path.insert(0, ROOT)
ALL = [f"C{n:02d}" for n in range(1, 21)]
NOT_BUILT = "machinery for this property is not built yet in this round (see DESIGN.md section 8)"
NA = {}
checks = []
for pid in ALL:
    p = os.path.join(ROOT, "props", pid + ".py")
    if not os.path.exists(p):
        NA.setdefault(pid, NOT_BUILT)
        continue
    mod = importlib.import_module(f"props.{pid}")
    meta = {k: getattr(mod, k) for k in ("LEVEL", "LEVEL_TEXT", "LEVEL_NOTE", "TECHNIQUE", "DESIGN_REF", "NOT_APPLICABLE") if hasattr(mod, k)}
    if "NOT_APPLICABLE" in meta:
        NA[pid] = meta["NOT_APPLICABLE"]
        continue
    checks.append({
        "property_id": pid,
        "quick_cmd": f"./check {pid} --tier quick",
        "thorough_cmd": f"./check {pid} --tier thorough",
        "evidence_file": f"evidence/{pid}.json",
        "replay_cmd_template": f"./check {pid} --replay {{path}}",
        "engine": "pyvc",
        "level_claimed": {"category": meta.get("LEVEL", "proof"), "text": meta["LEVEL_TEXT"], "design_ref": meta.get("DESIGN_REF", "DESIGN.md section 6")},
        "level_note": meta["LEVEL_NOTE"],
        "technique": meta.get("TECHNIQUE", "contract-based deductive verification: VCs generated from the real AST (pyvc), discharged by z3"),
    })
m = {
    "version": 1,
    "setup_cmd": "./setup.sh",
    "hooks": {"guard": "MULTIDECODER_VERIF", "enable": "unused: contracts are sidecar files under /verif/contracts, the repository source is read, never instrumented",
              "baseline_off_cmd": "cd /repo && /venv/bin/python -m pytest -ra -q -p no:cacheprovider --timeout=900 --continue-on-collection-errors", "source_commits": [], "add_only": True},
    "engines": [{"name": "pyvc", "path": "pyvc/", "serves_properties": [c["property_id"] for c in checks],
                 "kind_free_text": "verification-condition generator for the Python subset of Multidecoder: symbolic execution of the real AST cut by loop invariants and callee contracts, z3 portfolio (string-abstracted EUF first, native strings second), plus run-time evaluation of the same contracts as bounded stand-ins"}],
    "checks": checks,
    "not_applicable": [{"property_id": k, "reason": v} for k, v in sorted(NA.items())],
    "notes": "exit codes of ./check: 0 held, 1 violation (VIOLATION line), 2 undecided, 3 checker could not run. KNOWN_FINDINGS.txt lists recorded defects.",
}
json.dump(m, open(os.path.join(ROOT, "MANIFEST.json"), "w"), indent=1)
print("claimed:", [c["property_id"] for c in checks], "n/a:", sorted(NA))
