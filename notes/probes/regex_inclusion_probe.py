from z3 import *
import time
x = String('x')
def U(*a): return Union(*a) if len(a)>1 else a[0]
alnum = U(Range('a','z'),Range('A','Z'),Range('0','9'))
hostc = U(alnum, Re('%'), Re('.'), Re('-'))
def run(name, f, to=30000):
    s=Solver(); s.set('timeout',to); s.add(f); t=time.time(); r=s.check(); print(f'{name:40s}', r, round(time.time()-t,2), (str(s.model()[x])[:40] if r==sat else ''))
run('host{4,253} ⊆ hostc+', And(InRe(x, Loop(hostc,4,253)), Not(InRe(x, Plus(hostc)))))
run('host{4,253} ⊆ no-space', And(InRe(x, Loop(hostc,4,253)), Contains(x, StringVal(' '))))
# powershell bytes: ((0x[0-9a-f]{2}|\d{1,3}),\s*){500,}(0x..|\d{1,3})
hexd = U(Range('0','9'),Range('a','f'),Range('A','F')); dig = Range('0','9'); ws = U(Re(' '),Re('\t'),Re('\n'),Re('\r'),Re('\x0b'),Re('\x0c'))
elt = U(Concat(U(Re('0x'),Re('0X')), Loop(hexd,2,2)), Loop(dig,1,3))
PB = Concat(Loop(Concat(elt, Re(','), Star(ws)), 500), elt)
run('PSBYTES{500,}: len>=1000', And(InRe(x, PB), Length(x) < 1000))
# domain regex: (?:[a-z0-9-]+\.)+(?:xn--[a-z0-9]{4,18}|[a-z]{2,12})   (?i)
lab = Plus(U(alnum, Re('-')))
letters = U(Range('a','z'),Range('A','Z'))
xn = Concat(U(Re('x'),Re('X')),U(Re('n'),Re('N')),Re('--'),Loop(alnum,4,18))
DOM = Concat(Plus(Concat(lab, Re('.'))), U(xn, Loop(letters,2,12)))
run('DOMAIN ⊆ [A-Za-z0-9.-]+', And(InRe(x, DOM), Not(InRe(x, Plus(U(alnum, Re('.'), Re('-')))))))
run('DOMAIN: rsplit gives name!="" ', And(InRe(x, DOM), Not(InRe(x, Concat(Plus(AllChar(ReSort(StringSort()))), Re('.'), Plus(U(alnum,Re('-'))))))))
# base64 core
b64c = U(alnum, Re('+'), Re('/'))
B64 = Concat(Loop(Concat(Loop(b64c,4), Option(Re('\r')), Option(Re('\n'))), 5), Loop(b64c,2), Option(Re('=')), Option(Re('=')))
run('B64: len>=22', And(InRe(x, B64), Length(x) < 22))
run('B64 sat sample', And(InRe(x, B64), Length(x) == 30))
