import z3, time
from z3 import *
def rng(a,b): return Range(a,b)
def ci(ch):
    return Union(Re(ch.lower()), Re(ch.upper())) if ch.isalpha() else Re(ch)
digit = rng('0','9')
alnum_ci = Union(rng('a','z'), rng('A','Z'), digit)
# XML group alt: x[a-z0-9]{2} | 25[0-5]|2[0-4][0-9]|[0-1]?[0-9]{1,2}
G = Union(Concat(Union(Re('x'),Re('X')), Loop(alnum_ci,2,2)),
          Concat(Re('25'), rng('0','5')), Concat(Re('2'), rng('0','4'), digit), Concat(Option(rng('0','1')), Loop(digit,1,2)))
hexd = Union(digit, rng('a','f'), rng('A','F'))
safe = Union(Concat(Union(Re('x'),Re('X')), Plus(hexd)), Plus(digit))
x = String('x')
s = Solver(); s.set('timeout', 20000)
s.add(InRe(x, G), Not(InRe(x, safe)))
t=time.time(); r = s.check(); print('xml group ⊆ safe?', r, s.model() if r==sat else '', time.time()-t)
# whole pattern: data in (&#G;){5,}; piece x with data = u + "&#" + x + ";" + v ; x has no ';' ... prove x in G  (weaker: x has no ';' and no '&')
data, u, v = Strings('data u v')
P = Loop(Concat(Re('&#'), G, Re(';')), 5)
s = Solver(); s.set('timeout', 30000)
s.add(InRe(data, P), data == Concat(u, StringVal('&#'), x, StringVal(';'), v), Not(Contains(x, StringVal(';'))), Or(u == StringVal(''), SuffixOf(StringVal(';'), u)), Not(InRe(x, G)))
t=time.time(); r = s.check(); print('piece in G?', r, s.model() if r==sat else '', time.time()-t)
