# Feasibility: flatten loop VC with recursive spec function F over a heap of nodes (strings + RecFunction)
from z3 import *
import time
I, S = IntSort(), StringSort()
VAL = Function('VAL', I, S); ST = Function('ST', I, I); EN = Function('EN', I, I); ISSTR = Function('ISSTR', I, BoolSort())
NCH = Function('NCH', I, I); CH = Function('CH', I, I, I)      # children as function (node, idx) -> ref
Flat = Function('Flat', I, S)                                   # recursion contract result for children (uninterpreted here = callee contract)
F = RecFunction('F', I, I, I, S)
n,k,off = Ints('n k off')
c = CH(n,k); d = Flat(c)
Q = If(ISSTR(c), Concat(StringVal('"'), d, StringVal('"')), d)
RecAddDefinition(F, [n,k,off],
   If(k >= NCH(n), SubString(VAL(n), off, Length(VAL(n))-off),
   If(Or(ST(c) < off, d == SubString(VAL(n), ST(c), EN(c)-ST(c))), F(n,k+1,off),
      Concat(SubString(VAL(n), off, ST(c)-off), Q, F(n,k+1,EN(c))))))
# loop state
self_, kk, offset = Ints('self kk offset'); acc = String('acc')
L = Length(VAL(self_))
WF = And(0<=kk, kk<NCH(self_), 0<=offset, offset<=L,
         0<=ST(CH(self_,kk)), ST(CH(self_,kk))<=EN(CH(self_,kk)), EN(CH(self_,kk))<=L)
total = String('total')
Inv = Concat(acc, F(self_,kk,offset)) == total
child = CH(self_,kk); nd = Flat(child)
def check(name, hyps, goal):
    s = Solver(); s.set('timeout', 30000); s.add(*hyps); s.add(Not(goal))
    t=time.time(); r=s.check(); print(name, r, round(time.time()-t,2))
# path 1: child.start < offset -> continue
check('skip', [WF, Inv, ST(child) < offset], Concat(acc, F(self_,kk+1,offset)) == total)
# path 2: node_data == covered -> nothing appended
cov = SubString(VAL(self_), ST(child), EN(child)-ST(child))
check('same', [WF, Inv, Not(ST(child) < offset), nd == cov], Concat(acc, F(self_,kk+1,offset)) == total)
# path 3: substituted
q = If(ISSTR(child), Concat(StringVal('"'), nd, StringVal('"')), nd)
acc2 = Concat(acc, SubString(VAL(self_), offset, ST(child)-offset), q)
check('subst', [WF, Inv, Not(ST(child) < offset), nd != cov], Concat(acc2, F(self_,kk+1,EN(child))) == total)
# exit: k == NCH
check('exit', [0<=offset, offset<=L, kk == NCH(self_), Inv], Concat(acc, SubString(VAL(self_), offset, L-offset)) == total)
# mutation: offset = node.start instead of node.end  -> should be sat/unknown (not unsat)
check('MUT subst(off=start)', [WF, Inv, Not(ST(child) < offset), nd != cov], Concat(acc2, F(self_,kk+1,ST(child))) == total)
