import struct, signal
from multidecoder.decoders.pe_file import find_pe_files, pe_size
def mkpe(ptr_raw, size_raw, total):
    dos = bytearray(0x40); dos[0:2]=b'MZ'; struct.pack_into('<I', dos, 0x3c, 0x40)
    coff = struct.pack('<4sHHIIIHH', b'PE\0\0', 0x14c, 1, 0,0,0, 0xE0, 0x102)
    opt = bytearray(0xE0); struct.pack_into('<H', opt, 0, 0x10b)
    struct.pack_into('<I', opt, 0x20, 0x1000) # section alignment
    struct.pack_into('<I', opt, 0x24, 0x200) # file alignment
    struct.pack_into('<I', opt, 0x5c, 16) # NumberOfRvaAndSizes
    sec = struct.pack('<8sIIIIIIHHI', b'.text', 0x1000, 0x1000, size_raw, ptr_raw, 0,0,0,0, 0x60000020)
    d = bytes(dos)+coff+bytes(opt)+sec
    return d + b'\0'*(total-len(d)) if total>len(d) else d
d = mkpe(0x200, 0x10000, 0x400)
print(len(d), pe_size(d))
print(find_pe_files(b'xx'+d))
from multidecoder.multidecoder import Multidecoder
def h(*a): raise TimeoutError
signal.signal(signal.SIGALRM, h); signal.alarm(10)
try:
    t = Multidecoder().scan(b'xx'+d)
    print('scan ok', [ (n.type,n.start,n.end) for n in t][:5])
except TimeoutError: print("HANG")
