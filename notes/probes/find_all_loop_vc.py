# find_all VC, alternation-free: ghost cnt (prefix count of ok) and idx (witness map), one query per clause
from z3 import *
import time
data, kw = Strings('data kw'); n = Length(kw)
A = lambda nm: Array(nm, IntSort(), IntSort())
chain, starts, cnt, idx = A('chain'), A('starts'), A('cnt'), A('idx'); m, ns, start = Ints('m ns start')
j = Int('j')
okf = Function('okf', IntSort(), BoolSort())
def isalnum1(s): return InRe(s, Union(Range('0','9'), Range('a','z'), Range('A','Z')))
def ok(pos):
    end = pos + n
    return And(Or(pos == 0, Not(isalnum1(SubString(data, pos-1, 1)))), Or(end == Length(data), Not(isalnum1(SubString(data, end, 1)))))
FIND = Function("FIND", IntSort(), IntSort())
nxt = lambda prev: FIND(prev + n)
def clauses(chain, m, starts, ns, cnt, idx, start):
    return {
     'basic': And(n > 0, m >= 0, Select(cnt,0) == 0, ns == Select(cnt, m)),
     'start': start == If(m == 0, FIND(0), nxt(Select(chain, m-1))),
     'chain': ForAll([j], Implies(And(0<=j, j<m), And(Select(chain,j) >= 0,
               Select(chain,j) == If(j == 0, FIND(0), nxt(Select(chain, j-1)))))),
     'cnt':   ForAll([j], Implies(And(0<=j, j<m), Select(cnt,j+1) == Select(cnt,j) + If(okf(Select(chain,j)), 1, 0))),
     'mono':  ForAll([j], Implies(And(0<=j, j<m), And(Select(cnt,j) >= 0, Select(cnt,j+1) <= ns))),
     'fwd':   ForAll([j], Implies(And(0<=j, j<m, okf(Select(chain,j))), Select(starts, Select(cnt,j)) == Select(chain,j))),
     'bwd':   ForAll([j], Implies(And(0<=j, j<ns), And(0 <= Select(idx,j), Select(idx,j) < m, okf(Select(chain, Select(idx,j))),
                                   Select(cnt, Select(idx,j)) == j, Select(starts,j) == Select(chain, Select(idx,j))))),
    }
pre = clauses(chain, m, starts, ns, cnt, idx, start)
okS = okf(start)
hyp0 = list(pre.values()) + [start >= 0, Or(FIND(start+n) == -1, FIND(start+n) >= start+n), Or(FIND(start+1) == -1, FIND(start+1) >= start+1)]
chain2, m2, start2 = Store(chain, m, start), m+1, FIND(start + n)
def run(name, hyps, goal):
    s = Solver(); s.set('timeout', 20000); s.add(*hyps); s.add(Not(goal))
    t=time.time(); r=s.check(); print(f'{name:28s}', r, round(time.time()-t,2))
for path, cond, starts2, ns2, cnt2, idx2 in [
    ('append', okS,      Store(starts, ns, start), ns+1, Store(cnt, m+1, ns+1), Store(idx, ns, m)),
    ('skip',   Not(okS), starts,                   ns,   Store(cnt, m+1, ns),   idx)]:
    post = clauses(chain2, m2, starts2, ns2, cnt2, idx2, start2)
    for cname, g in post.items():
        run(f'preserve/{path}/{cname}', hyp0 + [cond], g)
# mutation: next search from start+1 instead of start+len(kw)  -> 'start' clause must fail
post = clauses(chain2, m2, starts, ns, Store(cnt, m+1, ns), idx, FIND(start + 1))
run('MUT(start+1)/start', hyp0 + [Not(okS)], post['start'])
