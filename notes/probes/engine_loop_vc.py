"""Design-time probe (NOT framework code): hand-encoded VCs of one iteration of the main loop of
Multidecoder.scan_node, with the invariants J1-J5 of DESIGN.md 5.2, the inner while loop cut by its own
invariant, and goals E1 (bounds), E3 (laminar), J re-established, agreement with the reference k*.
usage: python3-vt engine_loop_vc.py [bug]      (bug = shipped `decode_end = hit.end`, else `hit.end + offset`)
"""
from z3 import *
import sys, time
BUG = len(sys.argv) > 1 and sys.argv[1] == 'bug'          # weak invariant that the shipped code could satisfy
SHIPPED = len(sys.argv) > 1 and sys.argv[1] == 'shipped'  # the contract's invariant (dend == D) against the shipped assignment
I = IntSort(); A = lambda n: Array(n, I, I)
k = Int('k'); j2 = Int('j2')
class St:  # a symbolic program+ghost state
    def __init__(s, tag):
        for f in 'S E VL ABS LE LS STK'.split(): setattr(s, f, A(f + tag))
        for v in 'sp node offset dend D dbase'.split(): setattr(s, v, Int(v + tag))
    def ctx(s, kk): return If(kk == s.sp, s.node, Select(s.STK, kk))
    def ext(s, r): return Select(s.ABS, r) + Select(s.VL, r)
root0, hit, a, b = Ints('root0 hit a b')
def J(s, a_, b_):   # loop-head invariant, parameterised by (start, end) of the next hit (sort key (start, -end))
    c = s.ctx
    return {
     'J0': ForAll([k, j2], Implies(And(0 <= k, k < j2, j2 <= s.sp), c(k) != c(j2))),   # open contexts are pairwise distinct objects
     'J1': And(s.sp >= 0, s.offset == Select(s.ABS, s.node), Select(s.ABS, root0) == 0, c(0) == root0, s.D >= 0),
     'J2': ForAll([k], Implies(And(0 <= k, k < s.sp), And(Select(s.ABS, c(k)) <= Select(s.ABS, c(k+1)), s.ext(c(k+1)) <= s.ext(c(k)), Select(s.VL, c(k+1)) >= 0))),
     'J3': ForAll([k], Implies(And(0 <= k, k < s.sp), And(Select(s.S, c(k+1)) == Select(s.ABS, c(k+1)) - Select(s.ABS, c(k)),
                                                       Select(s.LE, c(k)) == s.ext(c(k+1)), Select(s.LS, c(k)) == Select(s.ABS, c(k+1))))),
     'J4': ForAll([k], Implies(And(0 <= k, k <= s.sp), And(Select(s.ABS, c(k)) <= a_, Select(s.LS, c(k)) <= a_))),
     'J4x': ForAll([k], Implies(And(1 <= k, k <= s.sp), Or(Select(s.ABS, c(k)) < a_, And(Select(s.ABS, c(k)) == a_, s.ext(c(k)) >= b_)))),  # pushed contexts precede the hit in sort order
     'J5': And(Select(s.LE, s.node) <= s.D, (s.dend + s.dbase == s.D) if BUG else (s.dend == s.D), s.dbase >= 0),
    }
s0 = St('0')
fresh = ForAll([k], Implies(And(0 <= k, k <= s0.sp), s0.ctx(k) != hit))
pre = list(J(s0, a, b).values()) + [fresh, 0 <= a, a <= b, b <= s0.ext(root0), Select(s0.VL, root0) >= 0]
results = []
def prove(name, hyps, goal, expect=unsat):
    s = Solver(); s.set('timeout', 20000); s.add(*hyps); s.add(Not(goal))
    t = time.time(); r = s.check(); dt = round(time.time() - t, 2)
    print(f'{name:42s} {str(r):8s}{dt:6.2f}s'); results.append((name, r))
    return s if r == sat else None
# ---- inner while: state s1 = s0 with (sp,node,offset) replaced
s1 = St('0'); s1.sp, s1.node, s1.offset = Int('sp1'), Int('node1'), Int('offset1')
Winv = And(0 <= s1.sp, s1.sp <= s0.sp, s1.node == s0.ctx(s1.sp), s1.offset == Select(s0.ABS, s1.node),
           ForAll([k], Implies(And(s1.sp < k, k <= s0.sp), b > s0.ext(s0.ctx(k)))))
guard = b > s1.offset + Select(s0.VL, s1.node)
shadow = b <= s0.dend
prove('while/init', pre + [Not(shadow)], substitute(Winv, (s1.sp, s0.sp), (s1.node, s0.node), (s1.offset, s0.offset)))
prove('while/body-unreachable-when-stack-empty', pre + [Not(shadow), Winv, guard], s1.sp > 0)     # termination + C08 reads-frame
sp2, node2, off2 = s1.sp - 1, Select(s0.STK, s1.sp - 1), s1.offset - Select(s0.S, s1.node)
prove('while/preserve', pre + [Not(shadow), Winv, guard, s1.sp > 0], substitute(Winv, (s1.sp, sp2), (s1.node, node2), (s1.offset, off2)))
# ---- after the while loop
post_w = pre + [Not(shadow), Winv, Not(guard)]
kstar = Int('kstar')   # reference: k* = max{k<=sp | b <= B_k}
prove('C06/k*-is-innermost-open-context', post_w + [0 <= kstar, kstar <= s0.sp, b <= s0.ext(s0.ctx(kstar)),
      ForAll([k], Implies(And(kstar < k, k <= s0.sp), b > s0.ext(s0.ctx(k))))], kstar == s1.sp)
rs, re_ = a - s1.offset, b - s1.offset        # hit.shift(-offset)
prove('E1/bounds 0<=start<=end<=len(parent)', post_w, And(0 <= rs, rs <= re_, re_ <= Select(s0.VL, s1.node)))
prove('E2/abs-start = a', post_w, Select(s0.ABS, s1.node) + rs == a)
prove('E3/sibling start non-decreasing', post_w, a >= Select(s0.LS, s1.node))
cex = prove('E3/sibling end strictly increasing', post_w, b > Select(s0.LE, s1.node))
prove('C06/shadowed iff b <= D', pre, shadow == (b <= s0.D))
# ---- re-establish J for the next hit (start a2 >= a, fresh hit2) ----
a2, b2, hit2 = Ints('a2 b2 hit2')
next_sorted = Or(a2 > a, And(a2 == a, b2 <= b))   # (a,-b) <= (a2,-b2)
def after(branch):
    s = St('N')
    common = [s.S == Store(s0.S, hit, rs), s.E == Store(s0.E, hit, re_), s.LS == Store(s0.LS, s1.node, a)]
    if branch == 'decoded':
        return s, common + [s.VL == s0.VL, s.ABS == s0.ABS, s.STK == s0.STK, s.sp == s1.sp, s.node == s1.node, s.offset == s1.offset,
                 s.LE == Store(s0.LE, s1.node, b), s.D == b,
                 s.dend == (re_ if (BUG or SHIPPED) else re_ + s1.offset), s.dbase == (s1.offset if BUG else 0)]
    else:  # context: value.lower() == original.lower()  =>  len(value) == end-start
        return s, common + [s.VL == Store(s0.VL, hit, b - a), s.ABS == Store(s0.ABS, hit, a), s.STK == Store(s0.STK, s1.sp, s1.node),
                 s.sp == s1.sp + 1, s.node == hit, s.offset == s1.offset + rs,
                 s.LE == Store(Store(s0.LE, s1.node, b), hit, -1), s.D == s0.D, s.dend == s0.dend, s.dbase == s0.dbase,
                 Select(s0.LS, hit) <= a]   # fresh node: LS ghost initialised to -1 (<= a)
for br in ('decoded', 'context'):
    sN, eqs = after(br)
    hyps = post_w + eqs + [next_sorted, b > Select(s0.LE, s1.node)]   # E3 already established on this path (fixed code) / assumed (bug)
    for cname, g in J(sN, a2, b2).items():
        c2 = prove(f'J-preserved/{br}/{cname}', hyps, g)
        if c2 is not None and cname == 'J5':
            m = c2.model(); ev = lambda t: m.eval(t, model_completion=True)
            print('   counterexample: a,b =', ev(a), ev(b), 'sp0 =', ev(s0.sp), 'sp1 =', ev(s1.sp), 'offset1 =', ev(s1.offset), "dend' =", ev(sN.dend), "D' =", ev(sN.D))
sN, eqs = after('decoded')
# shadowed / restates paths leave the state unchanged: J(s0,a) => J(s0,a2)
for cname, g in J(s0, a2, b2).items():
    prove(f'J-preserved/shadowed/{cname}', pre + [next_sorted], g)
# RESTATES path: taken after the while loop when hit.start == 0 (rs == 0) and value/type equal the context's; the sort key alone excludes a pop before it
prove('restates/no-pop-happened', post_w + [rs == 0], s1.sp == s0.sp)
for cname, g in J(s0, a2, b2).items():
    prove(f'J-preserved/restates/{cname}', post_w + [rs == 0, s1.sp == s0.sp, next_sorted], g)
bad = [n for n, r in results if r != unsat]
print('\nNOT DISCHARGED:', bad if bad else 'none', '| total', len(results))
if cex is not None:
    m = cex.model(); ev = lambda t: m.eval(t, model_completion=True)
    print('counterexample (E3 ends): a,b =', ev(a), ev(b), ' sp0 =', ev(s0.sp), ' sp1 =', ev(s1.sp), ' offset1 =', ev(s1.offset),
          ' dend =', ev(s0.dend), ' D =', ev(s0.D), ' dbase =', ev(s0.dbase), ' LE[node] =', ev(Select(s0.LE, s1.node)))
