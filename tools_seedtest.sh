#!/bin/bash
# tools_seedtest.sh <diff> <property...> : apply a seeded change to /repo, run the quick checks, undo it straight away.
diff=$1; shift
cd /repo || exit 9
git apply --check "$diff" || { echo "patch does not apply"; exit 9; }
git apply "$diff"
trap 'git -C /repo checkout -- . ' EXIT
for p in "$@"; do
  out=$(cd /verif && ./check $p --tier quick 2>&1); rc=$?
  echo "== $p rc=$rc"; echo "$out" | grep -E "^C[0-9]+:|VIOLATION|UNDECIDED|CHECKER" | head -6
done
