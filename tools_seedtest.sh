#!/bin/bash
# tools_seedtest.sh <diff> <property...> : apply a seeded change to /repo, run the quick checks, undo it straight away.
diff=$1; shift
cd /repo || exit 9
git apply --check "$diff" || { echo "patch does not apply"; exit 9; }
git apply "$diff"
# evidence written while a seeded change is applied must never be kept: restore the committed files afterwards
trap 'git -C /repo checkout -- . ; git -C /verif checkout -- evidence 2>/dev/null' EXIT
for p in "$@"; do
  out=$(cd /verif && ./check $p --tier quick 2>&1); rc=$?
  echo "== $p rc=$rc"; echo "$out" | grep -E "^C[0-9]+:|VIOLATION|UNDECIDED|CHECKER" | head -6
done
