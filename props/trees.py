"""Random / enumerated Node trees for the run-time stand-ins."""
import random

from multidecoder.node import Node

TYPES = ["", "string", "vba.string", "network.url", "x"]


def random_tree(rng: random.Random, depth=3, alphabet=b"ab\"c", maxlen=8, wild=False):
    n = rng.randint(0, maxlen)
    value = bytes(rng.choice(alphabet) for _ in range(n))
    root = Node(rng.choice(TYPES), value, rng.choice(["", "obf"]), 0, len(value))
    fill(rng, root, depth, alphabet, wild)
    return root


def fill(rng, node, depth, alphabet, wild):
    if depth <= 0:
        return
    L = len(node.value)
    k = rng.randint(0, 3)
    spans = []
    for _ in range(k):
        a = rng.randint(0, L)
        b = rng.randint(a, L)
        if wild and rng.random() < 0.1:
            b = b + rng.randint(0, 2)
        spans.append((a, b))
    spans.sort()
    if wild and rng.random() < 0.2:
        rng.shuffle(spans)
    for a, b in spans:
        r = rng.random()
        if r < 0.4:
            v = node.value[a:b]
        else:
            v = bytes(rng.choice(alphabet) for _ in range(rng.randint(0, 5)))
        c = Node(rng.choice(TYPES), v, rng.choice(["", "o"]), a, b, parent=node)
        node.children.append(c)
        fill(rng, c, depth - 1, alphabet, wild)


def tree_tuple(n):
    return (n.type, n.value, n.obfuscation, n.start, n.end, tuple(tree_tuple(c) for c in n.children))
