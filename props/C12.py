"""C12 - URL and Windows-path parts index into, and decode from, their parent's value."""
from props import decoder_common as DC
from props import netoracles as NO

LEVEL = "proof"
LEVEL_TEXT = ("proved for every text urlsplit accepts (under its stated contract): parse_url places scheme, path, query and fragment on exactly the text of that component "
              "(url_text[start:end] == component, offset bookkeeping proved through five cut points against the positions of the urlsplit decomposition), the scheme value is the "
              "lower-cased text and is labelled MixedCase exactly when the text is neither all lower nor all upper case, query / fragment values are the percent-decoded component; "
              "parse_ip / parse_ipv6 label the host as IP-obfuscated exactly when the canonical value differs from the host text (verified against uninterpreted models of socket / ipaddress); parse_authority places the user name at the start of the authority up to the first ':' (or last '@'), the password between the first ':' and the last '@', the host right "
              "after the last '@' (at 0 when there is none), user name and password values are the percent-decoded text their spans select, and parse_url carries that through "
              "shift_nodes (value == unquote(url_text[start:end])). normalize_path (dot segments, %2F), the host canonicalisation (parse_ip / parse_ipv6), find_urls and the Windows-path "
              "half are covered by the bounded stand-in only (labelled as such): normalize_path EXHAUSTIVELY over all paths of up to 5 segments from a 7-symbol set, URL parts on URLs "
              "generated from a grammar (empty userinfo / empty password with colon, ports, IPv4 / obfuscated / IPv6 / domain hosts, dot segments, escapes in every component, empty query), "
              "Windows paths on drive / UNC / device forms with dot segments")
LEVEL_NOTE = ("ASSUMED: urllib.parse.urlsplit decomposes its argument as [scheme ':'] ['//' netloc] path ['?' query] ['#' fragment] (stated contract; the positions handed to the proofs are "
              "derived from it by the model lemma urlsplit-positions, discharged every run); unquote_to_bytes / bytes.split / lower / upper as uninterpreted operations with their listed "
              "contracts; trusted string axioms slice-of-slice and upper-of-lower; parse_url requires a non-empty authority after '//' (true of every URL_RE match; parse_url(b'file:///x') "
              "mis-places the path, outside C12 because no URL node is built from it); the host span ends len(decoded host) after its start (equal to the text length for every host that "
              "survives normalisation). find_urls is proved to hand parse_url a text that meets its preconditions (is_url of the normalised text) and to attach the parts as children inside the node value. NOT proved: the cancellation order of normalize_path, normalize_percent_encoding (ASSUMED contract); find_windows_path is proved for DecoderOK (C03) and for `the file-name child is the last len(filename) bytes of the value`; its value, label and host children are bounded (ntpath.normpath)")
DESIGN_REF = "DESIGN.md 6 (C12), 14"
TECHNIQUE = "contract-based deductive verification of parse_url / parse_authority / shift_nodes (pyvc: cut points, lemma instances, z3 + cvc5) + bounded run-time contracts for the rest"
FUNCTIONS = ["multidecoder.node.shift_nodes", "multidecoder.decoders.network.parse_authority", "multidecoder.decoders.network.normalize_path", "multidecoder.decoders.network.parse_ip", "multidecoder.decoders.network.parse_ipv6", "multidecoder.decoders.network.parse_url", "multidecoder.decoders.network.is_url", "multidecoder.decoders.network.find_urls", "multidecoder.decoders.path.find_windows_path"]
DEMOTED = {r"find_windows_path/safe/IndexError@L\d+:list index": "segments[3] / segments[4] of a device path need the shape of ntpath.normpath's result, which is opaque to the encoding; covered by the run-time stand-in"}
RULE = "cases = generated URLs / paths; distinct = distinct inputs on which the real decoder reported a node that was compared with the reference"
EXPLANATION = "bounded stand-in"
BOUNDED = [NO.bounded_normalize_path, NO.bounded_url_parts, NO.bounded_windows_path]


def replay(case):
    return NO.replay(case)
