"""C12 - URL and Windows-path parts index into, and decode from, their parent's value."""
from props import decoder_common as DC
from props import netoracles as NO

LEVEL = "exploration"
LEVEL_TEXT = ("bounded stand-in (labelled as such): the real find_urls / parse_url / normalize_path / find_windows_path are compared with references written from the "
              "property text - normalize_path EXHAUSTIVELY over all paths of up to 5 segments from a 7-symbol set, URL parts on URLs generated from a grammar "
              "(userinfo, ports, IPv4 / obfuscated / IPv6 / domain hosts, dot segments, escapes in every component, empty query), Windows paths on drive / UNC / "
              "device forms with dot segments; no deductive contract covers these functions yet, so nothing here is counted as proved")
LEVEL_NOTE = ("not proved: parse_url / parse_authority / normalize_path sit on urllib.parse.urlsplit and list-valued loops (a list-valued specification function is outside the "
              "current pyvc), find_windows_path on ntpath.normpath; shift_nodes (used to place the authority parts) IS proved under C03")
DESIGN_REF = "DESIGN.md 6 (C12)"
TECHNIQUE = "bounded run-time contract evaluation against executable references (the deductive part of this property is only shift_nodes, proved under C03)"
FUNCTIONS = ["multidecoder.node.shift_nodes"]
RULE = "cases = generated URLs / paths; distinct = distinct inputs on which the real decoder reported a node that was compared with the reference"
EXPLANATION = "bounded stand-in"
BOUNDED = [NO.bounded_normalize_path, NO.bounded_url_parts, NO.bounded_windows_path]


def replay(case):
    return NO.replay(case)
