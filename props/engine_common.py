"""Shared definitions of the engine properties C03-C08 (DESIGN.md section 5)."""
ENGINE_FUNCS = [
    "multidecoder.multidecoder.Multidecoder.scan_node",
    "multidecoder.multidecoder.Multidecoder.scan",
    "multidecoder.node.Node.__init__",
    "multidecoder.node.Node.shift",
    "multidecoder.node.Node.original",
]
# clause groups of the main-loop invariant: the core (J0-J4, G*, W*) is inductive on its own; the laminarity group
# (J5*, ghost DABS, E3*) and the conformance group (E4*) build on it.  A property selects the groups it needs, so that
# a defect in the sibling bookkeeping is reported against C05 / C06 and not against C03 / C04 / C07 / C08.
# the case-folding view of C04 (J6, its two transition clauses and the three string lemmas) is a group of its own: it is the
# only part of the engine proof that needs string reasoning and is checked under C04 only
LOWER_VIEW = ("J6", "E2-original", "E2-context-value", "E2-parent-lower-view", "lower-commutes-with-slice", "slice-of-slice", "full-slice")
CORE_ONLY = ("J5", "E3", "E4", "DABS") + LOWER_VIEW
ENGINE_TRUSTED = [
    "A-det: decoders and trusted library calls are deterministic functions of their arguments",
    "A-rec: CPython's recursion limit is not reached (recursion depth <= depth_limit + tree height)",
    "ghost own/lo/hi: every pre-assembled structure a decoder returns is a finite forest (an interval numbering exists)",
    "acyclicity of the RESULT tree is argued (each attach links a parentless fresh node), not mechanically proved",
]


def engine_bounded(clauses):
    def bounded_engine(tier, seed):
        from props import engine_rt

        return engine_rt.run(tier, seed, clauses)

    bounded_engine.__name__ = "bounded_engine_" + "_".join(clauses)
    return bounded_engine


def replay(case):
    from props import engine_rt

    return engine_rt.replay(case)
