"""Bounded stand-in for the engine properties (C03-C08): the REAL Multidecoder.scan_node is run on synthetic registries
over exhaustively enumerated small hit configurations (plus a seeded random sample of larger ones) and the result is
compared with the executable reference procedure written from the text of C06, and with the clauses of C03/C04/C05/C07/C08.

It is a bounded stand-in (never counted as proved).  Its second role is to turn an obligation the verifier refutes or
cannot discharge into a concrete failing input that replays against the real code.
"""
from __future__ import annotations

import itertools
import random

from multidecoder.multidecoder import Multidecoder
from multidecoder.node import Node

TEXT = b"abcDEFghiJKL"
TEXT_WS = b"ab  cD\tEf  gh "

KINDS = ("ctx", "CTX", "dec", "kids", "same", "trim", "L1", "L2", "decsub")


def make_hit(text, spec, log):
    a, b, kind, tag = spec
    covered = text[a:b]
    children = None
    if kind.startswith("L") and kind[1:].isdigit():
        kind_l = kind
    if kind == "ctx":
        value = covered
    elif kind == "CTX":
        value = covered.swapcase()  # equal ignoring ASCII case: still an undecoded context
    elif kind == "dec":
        value = b"<" + tag.encode() + b">"
    elif kind == "kids":
        value = covered
        children = [Node("kid", value[:2], "", 0, min(2, len(value)))]
    elif kind.startswith("L") and kind[1:].isdigit():
        value = b"<" + kind.encode() + b">"  # the head of a chain of values that can always be decoded again (see CHAIN)
    elif kind == "self":
        value = text  # restates the node being scanned (same type as the decoded parent, same value, offset 0)
    elif kind == "decsub":
        value = text[:3] if text[:3] != covered else text[1:4]  # a decoded value that also occurs verbatim in the context
    elif kind == "trim":
        value = covered.strip()  # differs from the covered text only by surrounding whitespace: still a DECODED value
    elif kind == "same":
        value = covered
    else:
        raise ValueError(kind)
    typ = "T" if kind == "same" else "t" + tag
    n = Node(typ, value, "o" + tag, a, b, children=children)
    log[id(n)] = (a, b, text, n)
    return n


def registry_from(table, log, order, groups=None):
    """table: {text: [spec...]}.  Decoder g returns the hits of the spec indices in groups[g], IN THAT ORDER (a decoder
    need not list its hits sorted); by default one decoder per spec index.  `order` is the registry order."""
    width = max((len(v) for v in table.values()), default=0)
    if groups is None:
        groups = [[k] for k in range(width)]

    def mk(idxs):
        def dec(data, idxs=idxs):
            specs = table.get(data, [])
            return [make_hit(data, specs[k], log) for k in idxs if k < len(specs) and specs[k] is not None]

        return dec

    decs = [mk(g) for g in groups]
    return [decs[k] for k in order if k < len(decs)] + [decs[k] for k in range(len(decs)) if k not in order]


# ------------------------------------------------------------------------------------------------ reference (C06)
def T(node):
    return (node.type, node.value, node.obfuscation, node.start, node.end, tuple(T(c) for c in node.children))


def ref_children(registry, type_, value, supplied, depth):
    """The reference procedure of C06 -> tuple of child trees."""
    if depth <= 0:
        return tuple(supplied)
    if supplied:
        return tuple((t, v, o, s, e, ref_children(registry, t, v, ch, depth - 1)) for (t, v, o, s, e, ch) in supplied)
    hits = []
    for ri, dec in enumerate(registry):
        for h in dec(value):
            if h.value:
                hits.append((h.start, -h.end, ri, len(hits), h))
    hits.sort(key=lambda x: (x[0], x[1], x[2], x[3]))
    root = {"type": type_, "value": value, "A": 0, "B": len(value), "kids": []}
    open_ctx = [root]
    D = 0
    for a, negb, _, _, h in hits:
        b = -negb
        if b <= D:
            continue  # ends inside an already-decoded span
        while len(open_ctx) > 1 and b > open_ctx[-1]["B"]:
            open_ctx.pop()
        c = open_ctx[-1]
        if a == c["A"] and h.value == c["value"] and h.type == c["type"]:
            continue  # merely restates its parent
        rec = {"type": h.type, "value": h.value, "obf": h.obfuscation, "start": a - c["A"], "end": b - c["A"], "kids": [], "A": a, "B": a + len(h.value)}
        c["kids"].append(rec)
        supplied_h = tuple(T(k) for k in h.children)
        covered = c["value"][a - c["A"] : b - c["A"]]
        if h.value.lower() != covered.lower() or supplied_h:
            D = b
            rec["final"] = ref_children(registry, h.type, h.value, supplied_h, depth - 1)
        else:
            open_ctx.append(rec)

    def fin(rec):
        if "final" in rec:
            return (rec["type"], rec["value"], rec["obf"], rec["start"], rec["end"], rec["final"])
        return (rec["type"], rec["value"], rec["obf"], rec["start"], rec["end"], tuple(fin(k) for k in rec["kids"]))

    return tuple(fin(k) for k in root["kids"])


# ------------------------------------------------------------------------------------------------ clause checkers
def check_wf(root, data):
    """C03"""
    errs = []
    if not (root.type == "" and root.obfuscation == "" and root.value is data and root.start == 0 and root.end == len(data) and root.parent is None):
        errs.append("root does not carry the unmodified input")
    seen = set()

    def walk(p):
        for c in p.children:
            if id(c) in seen:
                errs.append("node appears twice")
            seen.add(id(c))
            if c.parent is not p:
                errs.append(f"parent link of {c.type} wrong")
            if not (0 <= c.start <= c.end <= len(p.value)):
                how = ""
                if c.type == "shell.powershell" and p.type == "shell.cmd" and c.start == 0 and c.end == len(c.value):
                    how = " {powershell child spans its OWN rewritten value, not the caret-unescaped parent}"
                if c.type == "shell.powershell" and p is root and c.end == len(p.value) - c.start:
                    how = " {no-context branch: end = len(data) - start}"
                errs.append(f"span [{c.start},{c.end}) of {c.type} under {p.type or 'root'!r} out of bounds of parent value (len {len(p.value)}){how}")
            walk(c)

    walk(root)
    pre = []

    def po(p):
        for c in p.children:
            pre.append(id(c))
            po(c)

    po(root)
    if [id(x) for x in root] != pre:
        errs.append("iteration is not depth-first pre-order")
    return errs


def check_context_preservation(root, log):
    """C04 (for the hits the decoders reported on the scanned text)"""
    errs = []
    for n in root:
        if id(n) not in log or log[id(n)][3] is not n:
            continue
        a, b, text, _ = log[id(n)]
        # enclosing undecoded contexts: parents up to (excluding) the node whose value is `text`
        s, p = n.start, n.parent
        while p is not None and not (p.value is text):
            s += p.start
            p = p.parent
        if p is None:
            continue  # reported on a decoded value deeper down: checked relative to that value by the recursion
        if s != a:
            errs.append(f"hit [{a},{b}) of {n.type}: enclosing starts add up to {s}")
        if n.end - n.start != b - a:
            errs.append(f"hit [{a},{b}) of {n.type}: span length {n.end - n.start}")
        if n.original.lower() != text[a:b].lower():
            errs.append(f"hit [{a},{b}) of {n.type}: original {n.original!r} != text[a:b] {text[a:b]!r}")
    return errs


def check_laminar(root):
    """C05"""
    errs = []

    def walk(p):
        for x, y in zip(p.children, p.children[1:]):
            if not (x.start <= y.start and x.end < y.end):
                errs.append(f"siblings {x.type}[{x.start},{x.end}) , {y.type}[{y.start},{y.end}) under {p.type!r} are not laminar")
        for c in p.children:
            walk(c)

    walk(root)
    return errs


def is_prefix_tree(small, big):
    """C07: every child list of `small` is an order-preserving sub-list of the corresponding list of `big` with identical contents."""
    it = iter(big)
    for s in small:
        for b in it:
            if s[:5] == b[:5] and is_prefix_tree(s[5], b[5]):
                break
        else:
            return False
    return True


# ------------------------------------------------------------------------------------------------ configurations
def intervals(L):
    return [(a, b) for a in range(L + 1) for b in range(a, L + 1)]


def configs(tier, seed, text=TEXT[:6]):
    L = len(text)
    iv = intervals(L)
    # exhaustive: every pair of hits over a short text, every kind, both registry orders
    small = [(a, b) for a, b in iv if b > a]
    cap = 2
    for n in range(1, cap + 1):
        for spans in itertools.product(small, repeat=n):
            for kinds in itertools.product(("ctx", "dec", "kids"), repeat=n):
                yield text, [(a, b, k, str(i)) for i, ((a, b), k) in enumerate(zip(spans, kinds))]
    rng = random.Random(seed)
    big = TEXT
    ivb = intervals(len(big))
    count = 1500 if tier == "quick" else 40000
    for it in range(count):
        n = rng.randint(3, 6)
        specs = []
        txt = TEXT_WS if it % 4 == 3 else big
        ivt = intervals(len(txt))
        for i in range(n):
            a, b = rng.choice(ivt)
            if rng.random() < 0.15:
                a, b = 0, len(txt)
            specs.append((a, b, rng.choice(KINDS), str(i)))
        yield txt, specs


def random_groups(rng, n):
    """A random partition of the spec indices into decoders, each listing its hits in a random order."""
    idx = list(range(n))
    rng.shuffle(idx)
    groups, i = [], 0
    while i < n:
        k = rng.randint(1, 3)
        groups.append(idx[i : i + k])
        i += k
    return groups


def run(tier, seed, clauses=("C03", "C04", "C05", "C06", "C07", "C08")):
    evals = 0
    distinct = set()
    failures = []
    samples = []
    for text, specs in configs(tier, seed):
        for order in ([list(range(len(specs)))] if len(specs) > 2 else itertools.permutations(range(len(specs)))):
            order = list(order)
            case = {"text": text.decode("latin-1"), "specs": specs, "order": order, "depth": 3}
            if len(specs) > 2 and evals % 2 == 0:
                grng = random.Random(evals + seed)
                case["groups"] = random_groups(grng, len(specs))
                case["order"] = list(range(len(case["groups"])))
            errs = eval_case(case, clauses)
            evals += 1
            key = tuple(sorted((s[0], s[1], s[2]) for s in specs))
            if len(specs) >= 2:
                distinct.add(key)
            if len(samples) < 3 and len(specs) >= 2:
                samples.append(case)
            for cl, msg in errs:
                if len(failures) < 5:
                    failures.append({"id": f"engine-{cl}-{len(failures)}", "function": "multidecoder.multidecoder.Multidecoder.scan_node", "obligation": f"bounded/{cl}", "case": case, "observed": msg, "clause": cl})
        if len(failures) >= 5:
            break
    return {
        "evaluations": evals,
        "distinct_nontrivial": len(distinct),
        "scope": "all configurations of 1-2 hits (3 kinds) over a 6-byte text in every registry order, plus a seeded sample of 3-6 hits (5 kinds) over a 12-byte text; depth 3 and the depth pair (k, k+1) for k in -1..3",
        "failures": failures,
        "samples": samples,
    }


def eval_case(case, clauses=("C03", "C04", "C05", "C06", "C07", "C08")):
    from props.fuzz import Timeout, with_timeout

    try:
        return with_timeout(5, _eval_case, case, clauses)
    except Timeout:
        return [("termination", "the real scan did not terminate within 5 s on this configuration (the clause cannot even be evaluated)")]
    except RecursionError:
        return [("termination", "the real scan exceeded the recursion limit on this configuration")]


def _eval_case(case, clauses=("C03", "C04", "C05", "C06", "C07", "C08")):
    text = case["text"].encode("latin-1")
    specs = [tuple(s) for s in case["specs"]]
    # decoded values are searched again: give the first decoded value one nested hit so that recursion is exercised
    table = {text: specs}
    for s in specs:
        if s[2] == "dec":
            v = b"<" + s[3].encode() + b">"
            table.setdefault(v, [(0, len(v), "dec", s[3] + "'"), (1, 2, "ctx", s[3] + '"'), (0, len(v), "self", s[3])])
        if s[2] == "decsub":
            for v in (text[:3], text[1:4]):
                table.setdefault(v, [(0, 2, "ctx", s[3] + "s"), (1, len(v), "dec", s[3] + "t")])
        if s[2] == "kids":
            kv = text[s[0] : s[1]][:2]
            if kv:
                table.setdefault(kv, [(0, len(kv), "dec", s[3] + "k")])  # the supplied child is itself searchable
    for lvl in range(1, 9):  # <L1> decodes to <L2> decodes to <L3> ... : every decoded value can be decoded again
        table.setdefault(b"<L%d>" % lvl, [(0, 4, "L%d" % (lvl + 1), "c")])
    groups = case.get("groups")
    errs = []
    trees = {}
    depth = case.get("depth", 3)
    for k in sorted({depth, depth + 1, 0, 1, 2, -1}):
        log = {}
        reg = registry_from(table, log, case["order"], groups)
        md = Multidecoder(reg)
        root = md.scan(text, k)
        trees[k] = T(root)[5]
        if k != depth and k in (1, 2):
            if "C03" in clauses:
                errs += [("C03", f"depth {k}: {e}") for e in check_wf(root, text)]
            if "C04" in clauses:
                errs += [("C04", f"depth {k}: {e}") for e in check_context_preservation(root, log)]
            if "C05" in clauses:
                errs += [("C05", f"depth {k}: {e}") for e in check_laminar(root)]
        if k != depth:
            if k in (1, 2) and "C06" in clauses:
                log2 = {}
                reg2 = registry_from(table, log2, case["order"], groups)
                ref = ref_children(reg2, "", text, (), k)
                if ref != trees[k]:
                    errs.append(("C06", f"depth {k}: tree differs from the reference procedure: got {trees[k]!r} expected {ref!r}"))
            continue
        if "C03" in clauses:
            errs += [("C03", e) for e in check_wf(root, text)]
        if "C04" in clauses:
            errs += [("C04", e) for e in check_context_preservation(root, log)]
        if "C05" in clauses:
            errs += [("C05", e) for e in check_laminar(root)]
        if "C06" in clauses:
            log2 = {}
            reg2 = registry_from(table, log2, case["order"], groups)
            ref = ref_children(reg2, "", text, (), k)
            if ref != trees[k]:
                errs.append(("C06", f"tree differs from the reference procedure: got {trees[k]!r} expected {ref!r}"))
        if "C08" in clauses:
            for n in root:
                if n.parent is not None and id(n) in log and (n.value.lower() != n.original.lower()) and not any(c.type == "kid" for c in n.children):
                    # depth remaining for this node = k - (number of decoded ancestors incl. itself)
                    d, p = 0, n
                    while p is not None and p is not root:
                        if p.value.lower() != p.original.lower() or any(c.type == "kid" for c in p.children):
                            d += 1
                        p = p.parent
                    log3 = {}
                    reg3 = registry_from(table, log3, case["order"], groups)
                    alone = Multidecoder(reg3).scan_node(Node(n.type, n.value), k - d)
                    if T(alone)[5] != T(n)[5]:
                        errs.append(("C08", f"children of decoded node {n.type} differ from a stand-alone scan of its value"))
    if "C07" in clauses:
        ks = sorted(trees)
        for k1, k2 in zip(ks, ks[1:]):
            if k2 == k1 + 1 and not is_prefix_tree(trees[k1], trees[k2]):
                errs.append(("C07", f"tree for depth {k1} is not the tree for depth {k2} truncated"))
        if trees.get(0) != () or trees.get(-1) != ():
            errs.append(("C07", "depth <= 0 did not return the bare root"))
    return errs


def replay(case):
    errs = eval_case(case)
    if errs:
        return False, "; ".join(f"{c}: {m}" for c, m in errs[:4])
    return True, "no clause fails on this configuration"
