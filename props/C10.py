"""C10 - reported network indicators are well-formed and normalised."""
from props import netoracles as NO

LEVEL = "proof"
LEVEL_TEXT = ("proved for the free-text searchers: every find_domains node carries the text it covers, which lies in [A-Za-z0-9.-]+ (language inclusion from the real DOMAIN_RE), "
              "is at least seven bytes long and is a non-empty name, a dot and a member of the real TOP_LEVEL_DOMAINS table (is_domain proved equivalent to that statement); every "
              "find_emails node is local-part@rest (inclusion from EMAIL_RE) and carries its text; every find_ips node is a canonical quad identical to the text it covers "
              "(under the assumed contract relating ipaddress.IPv4Address and socket.inet_aton); types and empty labels are pinned. every find_urls node has type network.url, label '' or escape.percent, a value urlsplit accepts with "
              "scheme http / https / ftp and a non-empty authority (is_url proved to imply that of the very text that is parsed). URL values (percent-normalisation) and indicators produced inside "
              "URL / path nodes are covered by the bounded stand-in only: every network.ip / domain / email / url node met while scanning generated indicator-rich inputs with the default registry, "
              "and every URL node of the URL grammar, is checked against the clauses of the property (canonical quad equal to its text in free text, name + dot + registered "
              "TLD, LDH and length >= 7 in free text, local@domain, scheme and host, value = percent-normalised text, label iff shortened)")
LEVEL_NOTE = ("the languages of IP_RE, DOMAIN_RE and EMAIL_RE are pinned (pin/<CONSTANT>: look-behinds / look-aheads erased on both sides; URL_RE is not pinned). ASSUMED (library models, listed in the evidence): ipaddress.IPv4Address(text) accepts exactly the canonical dotted quads; inet_aton accepts them and IPv4Address(packed).compressed gives the same text back - is_ip and parse_ip are verified against these; membership in the "
              "1488-entry TLD table is an uninterpreted predicate shared by code and specification; regex.sub with a callback is ASSUMED to replace every match by callback(match); the nested callback of normalize_percent_encoding is verified (one unreserved byte or the upper-cased escape: never longer, printable) and so is the label clause (escape.percent exactly when the text got shorter); WHICH bytes are unreserved is compared with the reference by the bounded stand-in")
DESIGN_REF = "DESIGN.md 6 (C10)"
TECHNIQUE = "contract-based deductive verification of the free-text searchers (pyvc, z3 regular-language inclusions) + bounded run-time contracts for URL nodes"
FUNCTIONS = ["multidecoder.decoders.network.is_ip", "multidecoder.decoders.network.is_domain", "multidecoder.decoders.network.find_domains", "multidecoder.decoders.network.find_emails", "multidecoder.decoders.network.find_ips",
             "multidecoder.decoders.network.is_url", "multidecoder.decoders.network.find_urls", "multidecoder.decoders.network.parse_ip", "multidecoder.decoders.network.normalize_percent_encoding.normalize_percent", "multidecoder.decoders.network.normalize_percent_encoding"]
RULE = "evaluations = network.* nodes checked; distinct = distinct (node type, parent type) pairs met plus distinct URLs compared"
EXPLANATION = "bounded stand-in"
BOUNDED = [NO.bounded_indicator_nodes, NO.bounded_url_parts]


def replay(case):
    return NO.replay(case)
