"""C10 - reported network indicators are well-formed and normalised."""
from props import netoracles as NO

LEVEL = "exploration"
LEVEL_TEXT = ("bounded stand-in (labelled as such): every network.ip / domain / email / url node met while scanning generated indicator-rich inputs with the default registry, "
              "and every URL node of the URL grammar, is checked against the clauses of the property (canonical quad equal to its text in free text, name + dot + registered "
              "TLD, LDH and length >= 7 in free text, local@domain, scheme and host, value = percent-normalised text, label iff shortened)")
LEVEL_NOTE = ("not proved: the validators sit on ipaddress / socket / urlsplit and on the 1488-entry TLD table; the regular-language inclusions of DESIGN.md 6 (C10) are not generated yet")
DESIGN_REF = "DESIGN.md 6 (C10)"
TECHNIQUE = "bounded run-time contract evaluation on generated inputs (no deductive obligations yet for network.py)"
FUNCTIONS = []
RULE = "evaluations = network.* nodes checked; distinct = distinct (node type, parent type) pairs met plus distinct URLs compared"
EXPLANATION = "bounded stand-in"
BOUNDED = [NO.bounded_indicator_nodes, NO.bounded_url_parts]


def replay(case):
    return NO.replay(case)
