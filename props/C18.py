"""C18 - the registry contains every shipped decoder and honours configuration."""
import ast
import os

LEVEL = "exploration"
LEVEL_TEXT = ("the selection logic of get_analyzers is PROVED for every include / exclude configuration (pkgutil / importlib / inspect as uninterpreted deterministic functions): a module is "
              "skipped only when the configuration says so (an include list is given and does not name it, or an exclude list names it), it is imported only when selected, and a function is "
              "registered only when it is a member of a selected module and carries the registration mark; both loops are plain for-loops over the library's results, so every module and "
              "member is visited once, in order. The rest is a bounded stand-in (labelled as such) plus a syntactic obligation per decoder: the set of functions carrying @decoder in the real "
              "AST of every decoder module must equal the pinned list of shipped decoders and must be exactly what get_analyzers() returns; build_registry / get_analyzers / get_keywords are "
              "run on all include / exclude subsets of size <= 2 (and random larger ones, including overlapping include and exclude lists, repeated builds in one process) and on generated "
              "keyword directories (empty files, blank lines, CRLF, nested directories, duplicate words, names with blanks)")
LEVEL_NOTE = ("the claimed level stays `exploration`: only the selection predicate is proved; which functions the real modules mark, and everything about keyword files (os.walk, file reading) "
              "is bounded / syntactic; pkgutil.iter_modules, importlib.import_module, inspect.getmembers and hasattr are ASSUMED total and deterministic")
DESIGN_REF = "DESIGN.md 6 (C18), Appendix B"
TECHNIQUE = "contract-based deductive verification of get_analyzers' selection logic (pyvc, statement-anchored assertions) + syntactic marker obligations over the real AST + bounded run-time evaluation of the registry contract"
FUNCTIONS = ["multidecoder.registry.get_analyzers"]
RULE = "evaluations = registry builds compared with the reference; distinct = distinct (include, exclude) pairs and directory layouts"
EXPLANATION = "bounded stand-in"
SRC = os.environ.get("VERIF_SRC", "/repo/src")

PINNED = {
    "base64": {"find_atob", "find_base64", "find_Base64Decode", "find_FromBase64String"}, "chr": {"find_chr"}, "codec": {"find_utf16"}, "concat": {"find_concat"},
    "filename": {"find_executable_name", "find_library"}, "hex": {"find_hex", "find_FromHexString"}, "javascript": {"find_unescape"},
    "network": {"find_domains", "find_emails", "find_ips", "find_urls"}, "path": {"find_path", "find_windows_path"}, "pe_file": {"find_pe_files"},
    "powershell": {"find_powershell_bytes"}, "replace": {"find_replace", "find_powershell_replace", "find_vba_replace", "find_js_regex_replace"}, "reverse": {"find_reverse"},
    "shell": {"find_cmd_strings", "find_powershell_strings"}, "vba": {"find_createobject", "find_strreverse"}, "xml": {"find_xml_hex"},
}


def marked_in_ast():
    out = {}
    d = os.path.join(SRC, "multidecoder", "decoders")
    for fn in sorted(os.listdir(d)):
        if not fn.endswith(".py") or fn == "__init__.py":
            continue
        tree = ast.parse(open(os.path.join(d, fn)).read())
        names = {n.name for n in tree.body if isinstance(n, ast.FunctionDef) and any(ast.unparse(x) in ("decoder", "registry.decoder") for x in n.decorator_list)}
        if names:
            out[fn[:-3]] = names
    return out


def bounded_registry(tier, seed):
    import itertools
    import random
    import tempfile

    from multidecoder import registry as R

    rng = random.Random(seed)
    failures, n, distinct = [], 0, set()

    def fail(id_, case, obs):
        if sum(1 for f in failures if f["id"].split(":")[0] == id_.split(":")[0]) < 2:
            failures.append({"id": id_, "function": "multidecoder.registry", "obligation": "bounded/registry", "case": case, "observed": obs})

    marked = marked_in_ast()
    n += 1
    if marked != PINNED:
        diff = {m: sorted(marked.get(m, set()) ^ PINNED.get(m, set())) for m in set(marked) | set(PINNED) if marked.get(m, set()) != PINNED.get(m, set())}
        fail("markers: @decoder set differs from the pinned list", {"markers": True}, f"functions marked @decoder differ from the shipped list: {diff}")

    def names(reg):
        return sorted(f"{f.__module__.split('.')[-1]}.{f.__name__}" for f in reg)

    allm = sorted(PINNED)
    want_all = sorted(f"{m}.{f}" for m, fs in marked.items() for f in fs)
    n += 1
    if names(R.get_analyzers()) != want_all:
        fail("default analyzers differ from the marked functions", {"registry": "default"}, f"get_analyzers() = {names(R.get_analyzers())}, marked = {want_all}")
    subsets = [()] + [(m,) for m in allm] + list(itertools.combinations(allm[:8], 2))
    pairs = [(i, e) for i in subsets[:20] for e in subsets[:20]] if tier != "quick" else [(i, e) for i in subsets[:9] for e in subsets[:9]]
    pairs += [(("base64", "hex", "network"), ("hex",)), (("hex",), ("hex",)), ((), ("shell", "xml")), (tuple(allm), ("vba",))]
    for _ in range(20):
        pairs.append((tuple(rng.sample(allm, rng.randint(0, 5))), tuple(rng.sample(allm, rng.randint(0, 5)))))
    for inc, exc in pairs:
        n += 1
        distinct.add((inc, exc))
        got = names(R.get_analyzers(include=list(inc) or None, exclude=list(exc) or None))
        want = sorted(f"{m}.{f}" for m, fs in marked.items() for f in fs if (not inc or m in inc) and (not exc or m not in exc))
        if got != want:
            fail(f"include/exclude: {inc} / {exc}", {"include": list(inc), "exclude": list(exc)}, f"include={inc} exclude={exc}: got {got}, expected {want}")
        # build_registry: same decoders after the keyword searchers, also on a repeated build in the same process
        for rep in range(2):
            reg = R.build_registry(include=list(inc) or None, exclude=list(exc) or None)
            decs = names([f for f in reg if not hasattr(f, "func")])
            if decs != want:
                fail(f"build_registry (build #{rep + 1}): {inc} / {exc}", {"include": list(inc), "exclude": list(exc), "build": rep + 1}, f"build #{rep + 1} include={inc} exclude={exc}: decoders {decs}, expected {want}")
        if len(failures) >= 6:
            break
    # keyword directories
    layouts = [
        {"a.txt": b"alpha\nbeta\n", "empty": b"", "blank": b"\n\n\n", "sub/b": b"gamma\n\ndelta", "sub/deep/c": b"x y\n"},
        {"crlf": b"one\r\ntwo\r\n\r\n", "crlf_blank": b"\r\n\r\n", "dups": b"same\nsame\nsame\n", "spaces": b" lead\ntrail \n"},
        {"only/nested/file": b"kw\n"},
    ]
    for lay in layouts:
        with tempfile.TemporaryDirectory() as d:
            for rel, content in lay.items():
                os.makedirs(os.path.join(d, os.path.dirname(rel)), exist_ok=True)
                open(os.path.join(d, rel), "wb").write(content)
            n += 1
            distinct.add(tuple(sorted(lay)))
            ks = R.get_keywords(d)
            got = sorted((k.args[0], tuple(sorted(k.args[1]))) for k in ks)
            want = sorted((os.path.basename(rel), tuple(sorted({w for w in content.splitlines() if w}))) for rel, content in lay.items() if any(content.splitlines()) and any(w for w in content.splitlines()))
            if got != want:
                fail(f"keyword directory layout {sorted(lay)}", {"layout": {k: v.hex() for k, v in lay.items()}}, f"get_keywords -> {got}, expected {want}")
            reg = R.build_registry(d)
            kw_part = [f for f in reg if hasattr(f, "func")]
            if len(kw_part) != len(want) or names([f for f in reg if not hasattr(f, "func")]) != want_all:
                fail("custom keyword directory must replace the shipped keywords and nothing else", {"layout": {k: v.hex() for k, v in lay.items()}, "build": True}, f"{len(kw_part)} keyword searchers (expected {len(want)}), decoders {len(reg) - len(kw_part)}")
    # default keywords: one searcher per non-empty shipped file
    import multidecoder

    kd = os.path.join(os.path.dirname(multidecoder.__file__), "keywords")
    shipped = []
    for sub, _, files in os.walk(kd):
        for f in files:
            words = {w for w in open(os.path.join(sub, f), "rb").read().splitlines() if w}
            if words:
                shipped.append((f, tuple(sorted(words))))
    n += 1
    got = sorted((k.args[0], tuple(sorted(k.args[1]))) for k in R.get_keywords())
    if got != sorted(shipped):
        fail("default keyword searchers differ from the shipped files", {"registry": "keywords"}, f"{len(got)} searchers, {len(shipped)} non-empty shipped files")
    return {"evaluations": n, "distinct_nontrivial": len(distinct), "scope": "marker set; include/exclude pairs over subsets of size <= 2 plus overlapping and random ones, two builds each; 3 keyword directory layouts; the shipped keyword directory",
            "failures": failures, "samples": [{"include": ["base64", "hex", "network"], "exclude": ["hex"]}]}


BOUNDED = [bounded_registry]


def replay(case):
    r = bounded_registry("quick", 0)
    bad = [f for f in r["failures"] if f["case"] == case] or r["failures"]
    return (not bad, bad[0]["observed"] if bad else "registry as specified")
