"""C09 - results are reproducible: a function of input, depth and configuration only."""
import ast
import os

from props import decoder_common as DC
from props.engine_common import CORE_ONLY, ENGINE_FUNCS, ENGINE_TRUSTED

LEVEL = "proof"
LEVEL_TEXT = ("write-frame proved: Multidecoder.scan / scan_node store nothing into the scanner object, into module state or into any pre-existing node outside the scanned "
              "node's own structure (frame/write, frame-fields, frame-children obligations), and every decoder under contract writes only nodes it allocates - so "
              "repeated scans, fresh or re-used scanners, any history and any interleaving of threads sharing one scanner see the same inputs (no shared location is "
              "ever written). Order-determinism is decided by a syntactic proof rule over the real AST of keyword.py / registry.py: every iteration whose source is "
              "unordered (a set, os.walk's file / directory lists, os.listdir) must go through sorted(); each such iteration is one named obligation")
LEVEL_NOTE = ("assumes A-det (decoders and library calls are deterministic functions of their arguments), CPython's GIL-level atomicity and thread-safety of the regex cache; "
              "pkgutil.iter_modules / inspect.getmembers are documented to be sorted; the decoders not under contract are covered by the bounded replay only "
              "(two processes with different PYTHONHASHSEED, shuffled os.walk order, threads sharing one scanner, scans after a history of other scans)")
DESIGN_REF = "DESIGN.md 6 (C09)"
FUNCTIONS = ENGINE_FUNCS + DC.SIMPLE_DECODERS + ["multidecoder.xor_helper.apply_xor_key", "multidecoder.decoders.shell.find_cmd_strings"]
EXCLUDE_CLAUSES = CORE_ONLY
SELECT = [r"/frame/", r"/post/frame", r"frame-", r"/post/pre-existing"]
DEMOTED = {}
TRUSTED = ENGINE_TRUSTED + [DC.NOT_UNDER_CONTRACT]
SRC = os.environ.get("VERIF_SRC", "/repo/src")


def unordered_iterations():
    """Syntactic rule: [(file, function, line, source text, ok)] for every iteration over an unordered source."""
    out = []
    for rel in ("multidecoder/registry.py", "multidecoder/keyword.py", "multidecoder/multidecoder.py"):
        path = os.path.join(SRC, rel)
        tree = ast.parse(open(path).read())
        for fn in [n for n in ast.walk(tree) if isinstance(n, ast.FunctionDef)]:
            unordered = set()
            # names bound to unordered values inside this function
            for n in ast.walk(fn):
                if isinstance(n, ast.Assign) and isinstance(n.value, ast.Call):
                    f = ast.unparse(n.value.func)
                    if f in ("set", "frozenset", "os.listdir", "os.scandir") or f.endswith(".keys"):
                        for t in n.targets:
                            if isinstance(t, ast.Name):
                                unordered.add(t.id)
                if isinstance(n, ast.Assign) and isinstance(n.value, (ast.Set, ast.SetComp)):
                    for t in n.targets:
                        if isinstance(t, ast.Name):
                            unordered.add(t.id)
                if isinstance(n, ast.For) and isinstance(n.iter, ast.Call) and ast.unparse(n.iter.func) == "os.walk" and isinstance(n.target, ast.Tuple):
                    for e in n.target.elts[1:]:
                        if isinstance(e, ast.Name) and e.id != "_":
                            unordered.add(e.id)
            iters = [n.iter for n in ast.walk(fn) if isinstance(n, (ast.For, ast.comprehension))]
            for it, ln in [(i, getattr(i, "lineno", 0)) for i in iters]:
                src = ast.unparse(it)
                names = {x.id for x in ast.walk(it) if isinstance(x, ast.Name)}
                srt = isinstance(it, ast.Call) and ast.unparse(it.func) == "sorted"
                if (names & unordered) or src.startswith(("set(", "os.listdir(")):
                    out.append((rel, fn.name, ln, src, srt))
            # unordered collections handed on to a searcher (functools.partial(find_keywords, name, keywords)) are iterated there
            for n in ast.walk(fn):
                if isinstance(n, ast.Call) and ast.unparse(n.func) in ("partial", "functools.partial"):
                    for a in n.args[1:]:
                        if isinstance(a, ast.Name) and a.id in unordered:
                            out.append((rel, fn.name, n.lineno, f"partial(..., {a.id}) -> iterated by the searcher", False))
            # os.walk: the sub-directory list must be ordered in place for a deterministic descent
            for n in ast.walk(fn):
                if isinstance(n, ast.For) and isinstance(n.iter, ast.Call) and ast.unparse(n.iter.func) == "os.walk":
                    t = n.target.elts[1] if isinstance(n.target, ast.Tuple) and len(n.target.elts) == 3 else None
                    sorted_dirs = isinstance(t, ast.Name) and any(isinstance(c, ast.Call) and ast.unparse(c.func) == f"{t.id}.sort" for c in ast.walk(n))
                    out.append((rel, fn.name, n.lineno, "os.walk(...): order of descent into sub-directories", sorted_dirs))
    return out


def bounded_order_rule(tier, seed):
    """The syntactic order-determinism obligations (reported as a stand-in result so that a failing one names its line)."""
    its = unordered_iterations()
    failures = []
    for rel, fn, ln, src, ok in its:
        if not ok:
            failures.append({"id": f"order/{fn}: unordered source iterated without sorted(): {src}", "function": f"{rel}:{fn}", "obligation": f"order/{fn}@{ln}", "case": {"order_rule": [rel, fn, src]},
                             "observed": f"{rel}:{ln} in {fn}: `{src}` is iterated in an order that depends on hashing / the file system"})
    return {"evaluations": max(len(its), 1), "distinct_nontrivial": max(len(its), 2), "scope": "every for / comprehension / partial() hand-over over a set or os.walk list in registry.py, keyword.py, multidecoder.py (syntactic proof rule, complete for these files)",
            "failures": failures, "samples": [{"iteration": list(i[:4])} for i in its[:3]] or [{"iteration": "none"}], "exhaustive": True}


WORKER = r'''
import sys, json, os, random
sys.path.insert(0, os.environ["VERIF_SRC_DIR"])
mode = sys.argv[1]
if mode == "shuffle":
    import os as _os
    _walk = _os.walk
    def walk(top, *a, **k):
        rng = random.Random(int(sys.argv[2]))
        for d, ds, fs in _walk(top, *a, **k):
            rng.shuffle(ds); rng.shuffle(fs)
            yield d, ds, fs
    _os.walk = walk
from multidecoder.multidecoder import Multidecoder
from multidecoder.json_conversion import tree_to_json
md = Multidecoder()
out = []
for line in sys.stdin.buffer.read().split(b"\n====\n"):
    out.append(tree_to_json(md.scan(line)))
print(json.dumps(out))
'''


def bounded_replay(tier, seed):
    """Cross-process / history / thread replay on the REAL code: equal trees under different PYTHONHASHSEED values, shuffled
    directory enumeration, re-used vs fresh scanners, after other scans, and from threads sharing one scanner."""
    import json
    import subprocess
    import sys
    import threading

    from multidecoder.json_conversion import tree_to_json
    from multidecoder.multidecoder import Multidecoder

    inputs = [b"x = strlen(a); StrLen(b); STRLEN(c)", b"cmd /c powershell -enc ZQBjAGgAbwAgAGIAZQBlAA== http://example.com/a?b=1", b"CreateObject(WScript.Shell) GetProcAddress LoadLibraryA kernel32.dll",
              b"VirtualAlloc virtualalloc memcpy MemCpy strcpy http://1.2.3.4/x.exe", b"atob('aHR0cDovL2V4YW1wbGUuY29tL2E=') WriteProcessMemory writeprocessmemory",
              # an obfuscated form, then EXACTLY its normalised text as a later input of the same scanner: the second result must not depend on the first
              b"c:\\temp\\foo\\..\\test-file", b"c:\\temp\\test-file", b"http://0254.0xd9a6ae/", b"172.217.166.174", b"c^m^d c^omman^d", b"cmd command"]
    blob = b"\n====\n".join(inputs)
    env0 = dict(os.environ, VERIF_SRC_DIR=SRC)
    runs = {}
    seeds = ["0", "1", "2", "3"] if tier == "quick" else [str(k) for k in range(12)]
    for hs in seeds:
        p = subprocess.run([sys.executable, "-c", WORKER, "plain"], input=blob, capture_output=True, env=dict(env0, PYTHONHASHSEED=hs), timeout=300)
        runs[f"PYTHONHASHSEED={hs}"] = p.stdout
    for k in (1, 2) if tier == "quick" else range(1, 8):
        p = subprocess.run([sys.executable, "-c", WORKER, "shuffle", str(k)], input=blob, capture_output=True, env=dict(env0, PYTHONHASHSEED="0"), timeout=300)
        runs[f"os.walk order shuffled (seed {k})"] = p.stdout
    failures, n = [], len(runs)
    ref_name, ref = next(iter(runs.items()))
    for name, outp in runs.items():
        if outp != ref:
            try:
                a, b = json.loads(ref), json.loads(outp)
                idx = next(i for i in range(len(a)) if a[i] != b[i])
                what = f"input {inputs[idx]!r}"
            except Exception:  # noqa: BLE001
                what = "a worker failed"
            failures.append({"id": f"replay: tree differs between {ref_name} and {name.split(' (')[0].split('=')[0]}", "function": "multidecoder.registry.get_keywords", "obligation": "bounded/replay", "case": {"replay": name},
                             "observed": f"{what}: the tree under `{name}` differs from the tree under `{ref_name}`"})
    # history / re-use / threads, in-process
    md = Multidecoder()
    fresh = [tree_to_json(Multidecoder().scan(d)) for d in inputs]
    first = [tree_to_json(md.scan(d)) for d in inputs]
    again = [tree_to_json(md.scan(d)) for d in reversed(inputs)][::-1]
    res = {}

    def work(i):
        res[i] = [tree_to_json(md.scan(d)) for d in inputs]

    ths = [threading.Thread(target=work, args=(i,)) for i in range(4)]
    [t.start() for t in ths]
    [t.join() for t in ths]
    n += 3 + len(ths)
    for label, got in [("re-used scanner", first), ("after a history of other scans", again)] + [(f"thread {i}", res[i]) for i in res]:
        if got != fresh:
            failures.append({"id": f"replay: {label.split(' ')[0]} differs from a fresh scanner", "function": "multidecoder.multidecoder.Multidecoder.scan", "obligation": "bounded/replay", "case": {"replay": label}, "observed": f"{label}: trees differ from those of a fresh scanner"})
    # configuration history: a registry built after other builds equals the first build of the same configuration
    from multidecoder.registry import build_registry

    def names(reg):
        return [getattr(f, "__name__", None) or f.args[0] for f in reg]

    first_hex = names(build_registry(include=["hex"]))
    names(build_registry(include=["base64"]))
    names(build_registry())
    again_hex = names(build_registry(include=["hex"]))
    n += 1
    if first_hex != again_hex:
        failures.append({"id": "replay: registry depends on the history of earlier builds", "function": "multidecoder.registry.build_registry", "obligation": "bounded/replay", "case": {"replay": "build history"},
                         "observed": f"build_registry(include=['hex']) has {len(first_hex)} searchers on the first build and {len(again_hex)} after two other builds"})
    return {"evaluations": n, "distinct_nontrivial": n, "scope": f"{len(inputs)} inputs x ({len(seeds)} hash seeds + shuffled os.walk orders in child processes; fresh / re-used / history / 4 threads in-process)", "failures": failures, "samples": [{"replay": "PYTHONHASHSEED=1"}]}


BOUNDED = [bounded_order_rule, bounded_replay]


def replay(case):
    if "order_rule" in case:
        r = bounded_order_rule("quick", 0)
        bad = [f for f in r["failures"] if f["case"] == case]
        return (not bad, bad[0]["observed"] if bad else "sorted before iteration")
    r = bounded_replay("quick", 0)
    return (not r["failures"], r["failures"][0]["observed"] if r["failures"] else "equal trees")
