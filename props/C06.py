"""C06 - the scan engine conforms to the interval-nesting model for any registry."""
from props.engine_common import *  # noqa: F403

LEVEL = "proof"
LEVEL_TEXT = ("lock-step simulation proved per loop iteration for every registry meeting DecoderOK: a hit is dropped iff it ends inside the decoded "
              "span or restates the chosen context; the chosen parent is the innermost still-open context containing it and exactly the deeper "
              "contexts are closed; it is searched recursively (D := end, one less depth) iff its value differs from the covered text ignoring "
              "case or it has supplied children, else it is pushed as a context (transition clauses E4-* over the full invariant); "
              "Multidecoder.__init__ keeps the registry it is given")
LEVEL_NOTE = ("the fold of the per-step conformance into equality of whole trees is the loop rule itself (meta-argument), and is additionally "
              "exercised by the bounded stand-in, which compares the real engine with the executable reference procedure on enumerated "
              "configurations; assumes DecoderOK and sorted()")
DESIGN_REF = "DESIGN.md 5.3"
FUNCTIONS = ENGINE_FUNCS + ["multidecoder.multidecoder.Multidecoder.__init__"]
EXCLUDE_CLAUSES = LOWER_VIEW
TRUSTED = ENGINE_TRUSTED


def bounded_init(tier, seed):
    """Multidecoder(registry).decoders is the registry given, for registries of 0..3 entries (the empty one included)."""
    from multidecoder.multidecoder import Multidecoder

    failures, n = [], 0
    for k in range(4):
        reg = [(lambda data: []) for _ in range(k)]
        n += 1
        md = Multidecoder(reg)
        if md.decoders is not reg:
            failures.append({"id": f"init-registry-of-{k}", "function": "multidecoder.multidecoder.Multidecoder.__init__", "obligation": "post/keeps-the-given-registry",
                             "case": {"init_registry_len": k}, "observed": f"Multidecoder(registry of {k} entries) uses {len(md.decoders)} decoders instead of the registry it was given"})
    return {"evaluations": n, "distinct_nontrivial": n, "scope": "registries of 0..3 entries", "failures": failures, "samples": [{"init_registry_len": 0}]}


BOUNDED = [engine_bounded(("C06",)), bounded_init]


def replay(case):
    if "init_registry_len" in case:
        r = bounded_init("quick", 0)
        bad = [f for f in r["failures"] if f["case"] == case]
        return (False, bad[0]["observed"]) if bad else (True, "registry kept")
    from props import engine_rt

    return engine_rt.replay(case)
