"""C01 - scanning is total: no input makes a scan raise or hang."""
from props.decoder_common import *  # noqa: F403
from props.engine_common import ENGINE_FUNCS, CORE_ONLY

LEVEL = "proof"
LEVEL_TEXT = ("no-raise and termination obligations (safe/*, dec/*, pre/*) of the engine (under DecoderOK), of Node.flatten, and of the decoders under "
              "contract are discharged for all inputs: every raising primitive (index, unpack, int(), bytes(), unhexlify, decode) is either shown "
              "unreachable from the language of the real pattern or covered by a handler, every loop has a variant; every decoder the default registry ships is among them, and the DecoderOK clause "
              "`end <= len(data)` on which the engine's termination rests is discharged here too; scan() as a whole and the library code under assumed contracts are covered by a labelled bounded stand-in")
LEVEL_NOTE = NOT_UNDER_CONTRACT + "; assumed raise-sets of library calls (binascii, int, codecs, regex) are listed in the evidence; A-rec"
DESIGN_REF = "DESIGN.md 6 (C01)"
FUNCTIONS = ENGINE_FUNCS + ["multidecoder.node.Node.flatten", "multidecoder.xor_helper.apply_xor_key", "multidecoder.decoders.shell.find_cmd_strings", "multidecoder.decoders.shell.find_powershell_strings"] + SIMPLE_DECODERS + SHELL_FUNCS
EXCLUDE_CLAUSES = CORE_ONLY
# the engine's termination argument (the pop loop `while hit.end > offset + len(node.value)`) rests on the DecoderOK clause `end <= len(data)`:
# for the decoders under contract that clause is discharged HERE as well (the other DecoderOK clauses belong to C03)
SELECT = [r"/safe/", r"/dec/", r"/pre/", r"/callsite/", r"/registry-call/", r"/raises/", r"in-bounds\.2", r"/assert/", r"/cut/[^/]*/position"]
TRUSTED = [NOT_UNDER_CONTRACT]
BOUNDED = [bounded_scan_total, bounded_decoder_raises, bounded_known_limits]

DEMOTED = {r"find_windows_path/safe/IndexError@L\d+:list index": "segments[3] / segments[4] of a device path need the shape of ntpath.normpath's result (at least five pieces after the \\\\.\\ prefix), which is opaque to the encoding; covered by the run-time stand-in",
           r"find_powershell_strings/safe/IndexError@L\d+:list index": "args[0] needs `the invocation part of a two-word right-split is not blank` through split / join of '/', which the split model does not provide; covered by the run-time stand-in",
           r"find_cmd_strings/safe/IndexError@L\d+:list index": "split[0] needs `the de-escaped match contains a non-blank byte` (a fact about caret_from over L(CMD_RE)) which z3 cannot derive; covered by the run-time stand-in"}
