"""C20 - JSON serialisation is lossless and the CLI reports exactly the library's tree."""
import os

LEVEL = "proof"
LEVEL_TEXT = ("the serialisation half is PROVED for all finite trees: node_to_dict(n) records n (dict_is: type, value as hex, obfuscation, start, end and, in order, the children, recursively); "
              "as_node(d, parent) builds exactly the tree d records, with result.parent == parent and every child's parent link pointing at its parent (tree_is), out of newly allocated nodes only; "
              "lemma json-round-trip: a tree that is what d records, where d records n, is structurally equal to n; Node.__eq__(a, b) == tree_eq(a, b), the field-wise, child-wise comparison "
              "(so a difference in any field of any descendant, or a missing / extra child, makes trees unequal). Induction steps (pairwise / fold / monotonicity / frame lemmas over the recursive "
              "specification functions) are discharged in the same run. The CLI half is a bounded stand-in (labelled as such): the CLI is run in a sub-process (file argument and stdin, binary "
              "input, --json, default, --replace, --keywords) and compared with the library on the same bytes; squash_replace equals flatten when substituted results do not overlap; "
              "the JSON round trip is also exercised on seeded random trees (all byte values, non-ASCII labels, depth <= 4) through the real json module")
LEVEL_NOTE = ("ASSUMED: JSON objects are finite immutable records of the node_to_dict shape and json.dumps / json.loads return an equal object (the json module is trusted library code); "
              "bytes.fromhex(x.hex()) == x; the well-founded orders behind the induction steps (tree height, then number of remaining children) are the meta-level part; composing the three results "
              "uses that as_node writes no existing cell (its proved frame) - that dict_is is unaffected by such an allocation is argued, not discharged; Node.__eq__ is proved for `other` a Node "
              "(isinstance is not modelled); the CLI (argparse, file handling, printing) is bounded only")
DESIGN_REF = "DESIGN.md 6 (C20), 15, 16"
TECHNIQUE = ("contract-based deductive verification of Node.__eq__, node_to_dict, as_node (pyvc: heap-parametric recursive specification functions, frame lemmas over two heaps, "
             "induction-step lemmas) + bounded run-time contract evaluation for the CLI")
FUNCTIONS = ["multidecoder.node.Node.__eq__", "multidecoder.json_conversion.node_to_dict", "multidecoder.json_conversion.as_node"]
LEMMAS = ["json-round-trip"]
RULE = "evaluations = trees / CLI runs compared; distinct = distinct trees with at least one child and distinct CLI modes"
EXPLANATION = "bounded stand-in"
SRC = os.environ.get("VERIF_SRC", "/repo/src")


def bounded_json(tier, seed):
    import json
    import random

    from multidecoder import json_conversion as J
    from multidecoder.node import Node
    from props.trees import random_tree, tree_tuple

    rng = random.Random(seed)
    failures, n, distinct = [], 0, set()

    def fail(id_, case, obs):
        if sum(1 for f in failures if f["id"] == id_) < 1:
            failures.append({"id": id_, "function": "multidecoder.json_conversion", "obligation": "bounded/json", "case": case, "observed": obs})

    def nodes(t):
        yield t
        for c in t.children:
            yield from nodes(c)

    for i in range(400 if tier == "quick" else 8000):
        t = random_tree(rng, depth=4, alphabet=bytes(range(256)), maxlen=6)
        if i % 5 == 0:
            t.type, t.obfuscation = "té中", "øbf"
        tt = tree_tuple(t)
        n += 1
        if t.children:
            distinct.add(tt)
        try:
            text = J.tree_to_json(t)
            d = json.loads(text)
        except Exception as e:  # noqa: BLE001
            fail("tree_to_json does not produce valid JSON", {"tree": repr(tt)}, f"{type(e).__name__}: {e}")
            continue

        def rec_ok(dd, node):
            return (dd.get("type") == node.type and dd.get("value") == node.value.hex() and dd.get("obfuscation") == node.obfuscation and dd.get("start") == node.start
                    and dd.get("end") == node.end and len(dd.get("children", ())) == len(node.children) and all(rec_ok(x, y) for x, y in zip(dd["children"], node.children)))

        if not rec_ok(d, t):
            fail("JSON does not record every field of every node", {"tree": repr(tt)}, f"{text[:200]}")
        try:
            back = J.json_to_tree(text)
        except Exception as e:  # noqa: BLE001
            fail("json_to_tree raises", {"tree": repr(tt)}, f"json_to_tree(tree_to_json(tree)) raised {type(e).__name__}: {e}")
            continue
        if not isinstance(back, Node) or tree_tuple(back) != tt or not (back == t):
            fail("decoding the JSON does not return an equal tree", {"tree": repr(tt)}, f"got {back!r:.200}")
            continue
        if back.parent is not None or any(c.parent is not p for p in nodes(back) for c in p.children):
            fail("decoded tree has wrong parent links", {"tree": repr(tt)}, "a decoded node's parent pointer does not name the node whose child list holds it")
        # structural equality: any single difference makes the trees unequal
        all_nodes = list(nodes(back))
        victim = rng.choice(all_nodes)
        field = rng.choice(["type", "value", "obfuscation", "start", "end", "drop-last-child", "add-child", "re-nest", "re-nest"])
        if field == "re-nest":
            # same nodes in the same pre-order, different shape: the last child becomes the last grandchild (or the other way round)
            cand = [p for p in all_nodes if len(p.children) >= 2]
            if cand:
                p_ = rng.choice(cand)
                moved = p_.children.pop()
                p_.children[-1].children.append(moved)
                moved.parent = p_.children[-1]
            else:
                field = "add-child"
        if field == "drop-last-child" and not victim.children:
            field = "add-child"
        if field == "re-nest":
            pass
        elif field == "add-child":
            victim.children.append(Node("zz", b"", "", 0, 0, parent=victim))
        elif field == "drop-last-child":
            victim.children.pop()
        elif field in ("start", "end"):
            setattr(victim, field, getattr(victim, field) + 1)
        elif field == "value":
            victim.value = victim.value + b"!"
        else:
            setattr(victim, field, getattr(victim, field) + "x")
        if back == t or t == back:
            fail(f"equality is not structural ({field})", {"tree": repr(tt), "field": field}, f"trees differing in `{field}` of one node compare equal")
    return {"evaluations": n, "distinct_nontrivial": len(distinct), "scope": "seeded random trees, depth <= 4, values over all 256 bytes, non-ASCII labels; one random single-field / child-list / nesting difference per tree", "failures": failures,
            "samples": [{"tree": "('', b'ab', '', 0, 2, (('x', b'a', '', 0, 1, ()),))"}]}


def bounded_cli(tier, seed):
    import json
    import subprocess
    import sys
    import tempfile

    from multidecoder.json_conversion import tree_to_json
    from multidecoder.multidecoder import Multidecoder
    from multidecoder.query import string_summary

    failures, n = [], 0
    md = Multidecoder()
    inputs = [b"cmd /c echo http://example.com/a?b=1 kernel32.dll\n", b"x \xff\xfe\x80 latin-1 \xe9 atob('aHR0cDovL2EuY29tL3g=') \r\n tail", b"", b"plain text without anything\n", b"a = \"ab\" & \"cd\" : b = chr(65)\n"]
    env = dict(os.environ, PYTHONPATH=SRC, PYTHONHASHSEED="0")

    def run(args, data=None):
        return subprocess.run([sys.executable, "-m", "multidecoder"] + args, input=data, capture_output=True, env=env, timeout=300)

    def fail(id_, case, obs):
        if sum(1 for f in failures if f["id"] == id_) < 1:
            failures.append({"id": id_, "function": "multidecoder.__main__.main", "obligation": "bounded/cli", "case": case, "observed": obs})

    with tempfile.TemporaryDirectory() as d:
        for k, data in enumerate(inputs):
            path = os.path.join(d, f"in{k}.bin")
            open(path, "wb").write(data)
            tree = md.scan(data)
            want_json = json.loads(tree_to_json(tree))
            want_lines = string_summary(tree)
            for mode, how in (("file", [path]), ("stdin", [])):
                n += 1
                p = run(["--json"] + how, None if how else data)
                try:
                    got = json.loads(p.stdout)
                except Exception:  # noqa: BLE001
                    got = None
                if got != want_json:
                    fail(f"--json ({mode}) differs from the library tree", {"cli": "json", "mode": mode, "data": data.hex()}, f"input {data[:40]!r}: rc={p.returncode} stderr={p.stderr[-200:]!r}")
                n += 1
                p = run(how, None if how else data)
                lines = p.stdout.decode("utf-8", "replace").splitlines()
                if lines != want_lines:
                    fail(f"default output ({mode}) is not one summary line per node in pre-order", {"cli": "summary", "mode": mode, "data": data.hex()}, f"input {data[:40]!r}: {len(lines)} lines, expected {len(want_lines)}; rc={p.returncode} {p.stderr[-150:]!r}")
            n += 1
            p = run(["--replace", path])
            overlap = any(a.end > b.start for a, b in zip(tree.children, tree.children[1:]))
            if not overlap and p.stdout != tree.flatten():
                fail("--replace differs from flatten() on a tree without overlapping substitutions", {"cli": "replace", "data": data.hex()}, f"input {data[:40]!r}: {p.stdout[:80]!r} vs {tree.flatten()[:80]!r}")
        # --keywords DIR replaces the shipped keywords
        kd = os.path.join(d, "kw")
        os.makedirs(kd)
        open(os.path.join(kd, "mywords"), "wb").write(b"zebra\n")
        data = b"a zebra and kernel32.dll\n"
        open(os.path.join(d, "k.bin"), "wb").write(data)
        n += 1
        p = run(["--json", "--keywords", kd, os.path.join(d, "k.bin")])
        from multidecoder.registry import build_registry

        want = json.loads(tree_to_json(Multidecoder(build_registry(kd)).scan(data)))
        try:
            got = json.loads(p.stdout)
        except Exception:  # noqa: BLE001
            got = None
        if got != want:
            fail("--keywords DIR does not use exactly the custom keyword directory", {"cli": "keywords"}, f"rc={p.returncode} {p.stderr[-200:]!r}")
    return {"evaluations": n, "distinct_nontrivial": n, "scope": f"{len(inputs)} inputs (incl. non-UTF-8 bytes and the empty input) x {{file, stdin}} x {{--json, default}} + --replace + --keywords", "failures": failures, "samples": [{"cli": "json", "mode": "stdin"}]}


def bounded_squash(tier, seed):
    """squash_replace(data, children) == flatten() whenever no two substituted results overlap."""
    import random
    import warnings

    from multidecoder.query import squash_replace
    from props.trees import random_tree, tree_tuple

    rng = random.Random(seed)
    failures, n, distinct = [], 0, 0

    def no_overlap(t):
        off = 0
        for c in t.children:
            if c.start < off or not (0 <= c.start <= c.end <= len(t.value)):
                return False
            if not no_overlap(c):
                return False
            off = c.end
        return True

    for _ in range(1500 if tier == "quick" else 30000):
        t = random_tree(rng, depth=3)
        if not no_overlap(t):
            continue
        n += 1
        distinct += bool(t.children)
        with warnings.catch_warnings():
            warnings.simplefilter("ignore")
            got = squash_replace(t.value, t.children)
        if got != t.flatten() and not failures:
            failures.append({"id": "squash_replace differs from flatten on a non-overlapping tree", "function": "multidecoder.query.squash_replace", "obligation": "bounded/squash", "case": {"tree": repr(tree_tuple(t))}, "observed": f"{got!r} vs {t.flatten()!r}"})
    return {"evaluations": max(n, 1), "distinct_nontrivial": max(distinct, 2), "scope": "seeded random trees without overlapping children", "failures": failures, "samples": [{"tree": "..."}]}


BOUNDED = [bounded_json, bounded_cli, bounded_squash]


def replay(case):
    for b in BOUNDED:
        r = b("quick", 0)
        bad = [f for f in r["failures"] if f["case"] == case]
        if bad:
            return False, bad[0]["observed"]
    return True, "holds (quick scope)"
