"""Bounded stand-ins for the network / path properties C10, C11, C12: references written from the property text,
independent of the code under test (only urllib.parse.urlsplit / ntpath / ipaddress of the standard library are shared)."""
from __future__ import annotations

import ipaddress
import ntpath
import random
import re
import socket
from urllib.parse import unquote_to_bytes, urlsplit

UNRESERVED = set(b"ABCDEFGHIJKLMNOPQRSTUVWXYZabcdefghijklmnopqrstuvwxyz0123456789-._~")


def norm_pct(text: bytes) -> bytes:
    """C10: percent-escapes of unreserved characters decoded, all other escapes upper-cased."""
    out = bytearray()
    i = 0
    while i < len(text):
        if text[i] == 37 and i + 2 < len(text) + 0 and re.fullmatch(rb"[0-9a-fA-F]{2}", text[i + 1 : i + 3]):
            b = int(text[i + 1 : i + 3], 16)
            if b in UNRESERVED:
                out.append(b)
            else:
                out += text[i : i + 3].upper()
            i += 3
        else:
            out.append(text[i])
            i += 1
    return bytes(out)


def dot_segments(path: bytes):
    """C12: every '.' segment dropped, every '..' cancels the nearest remaining segment before it but never the root."""
    segs = [unquote_to_bytes(s).replace(b"/", b"%2F") for s in path.split(b"/")]
    out = []
    removed = False
    for s in segs:
        if s == b".":
            removed = True
        elif s == b"..":
            removed = True
            if out and out != [b""]:
                out.pop()
        else:
            out.append(s)
    if out == [b""]:
        return b"/", True
    return b"/".join(out), removed


def canon_ip(host: bytes):
    try:
        return ipaddress.IPv4Address(socket.inet_aton(host.decode())).compressed.encode()
    except Exception:  # noqa: BLE001
        return None


def url_reference(value: bytes):
    """Expected part children [(type, value, obfuscation, start, end)] of a URL node whose value is `value`."""
    from multidecoder.decoders.network import is_domain

    u = urlsplit(value)
    out = []
    off = 0
    if u.scheme:
        txt = value[: len(u.scheme)]
        out.append(("network.url.scheme", u.scheme, "MixedCase" if txt not in (txt.lower(), txt.upper()) else "", 0, len(u.scheme)))
        off = len(u.scheme) + 1
    if u.netloc:
        off += 2
        a = u.netloc
        userinfo, addr = a.rsplit(b"@", 1) if b"@" in a else (b"", a)
        user, pw = userinfo.split(b":", 1) if b":" in userinfo else (userinfo, b"")
        m = re.search(rb":\d*$", addr)
        host = addr[: m.start()] if m else addr
        p = off
        if user:
            out.append(("network.url.username", unquote_to_bytes(user), "", p, p + len(user)))
            p += len(user)
        if pw:
            p += 1
            out.append(("network.url.password", unquote_to_bytes(pw), "", p, p + len(pw)))
            p += len(pw)
        if host:
            p = off + (len(userinfo) + 1 if b"@" in a else 0)  # the host text starts right after the '@' (C12: the span selects the component's text)
            h = unquote_to_bytes(host)
            if h.startswith(b"["):
                if h.endswith(b"]"):
                    try:
                        v6 = ipaddress.IPv6Address(socket.inet_pton(socket.AF_INET6, h[1:-1].decode())).compressed.encode()
                        out.append(("network.ipv6", v6, "ip_obfuscation" if v6 != h[1:-1] else "", p + 1, p + 1 + len(h) - 2))
                    except Exception:  # noqa: BLE001
                        pass
                else:
                    out = [o for o in out if not o[0].startswith(("network.url.user", "network.url.pass"))]
            else:
                ip = canon_ip(h)
                if ip is not None:
                    out.append(("network.ip", ip, "ip_obfuscation" if ip != h else "", p, p + len(h)))
                elif is_domain(h):
                    out.append(("network.domain", h, "", p, p + len(h)))
        off += len(a)
    if u.path:
        v, rem = dot_segments(u.path)
        out.append(("network.url.path", v, "url.dotpath" if rem else "", off, off + len(u.path)))
        off += len(u.path)
    if value[off : off + 1] == b"?":
        off += 1
    if u.query:
        out.append(("network.url.query", unquote_to_bytes(u.query), "", off, off + len(u.query)))
        off += len(u.query)
    if u.fragment:
        off += 1
        out.append(("network.url.fragment", unquote_to_bytes(u.fragment), "", off, off + len(u.fragment)))
    return out


TLDS = [b"com", b"org", b"net", b"io", b"xn--p1ai"]


def gen_domain(rng):
    labels = [bytes(rng.choice(b"abcdefghijklmnopqrstuvwxyz0123456789") for _ in range(rng.randint(2, 8))) for _ in range(rng.randint(1, 3))]
    if rng.random() < 0.3:
        labels[0] = labels[0][:1] + b"-" + labels[0][1:]
    d = b".".join(labels) + b"." + rng.choice([b"com", b"org", b"net"])
    return d


def gen_ip(rng, plain=True):
    while True:
        q = [rng.randint(0, 255) for _ in range(4)]
        if q[3] in (0, 255) or q == [0, 0, 0, 0]:
            continue
        return b".".join(str(x).encode() for x in q)


def esc(rng, s: bytes, p=0.3):
    out = bytearray()
    for c in s:
        if rng.random() < p:
            out += (b"%%%02x" if rng.random() < 0.5 else b"%%%02X") % c
        else:
            out.append(c)
    return bytes(out)


def gen_url(rng):
    scheme = rng.choice([b"http", b"https", b"ftp", b"HTTP", b"HtTp", b"hTTps"])
    host = rng.choice([gen_domain(rng), gen_ip(rng), b"0x7f.0x0.0x0.0x1", b"0177.0.0.01", b"2130706433", b"[::1]", b"[2001:db8::7]", b"[2001:DB8::1]", b"[0:0:0:0:0:0:0:1]", b"[::1%2e]", b"[::%31]", b"[%31::1]", esc(rng, gen_domain(rng), 0.2)])
    user = rng.choice([b"", b"", b"john", b"john.doe", esc(rng, b"a b", 0.5)])
    pw = rng.choice([b"", b"", b"secret", b"p%40ss"])
    colon = bool(pw) or rng.random() < 0.2  # 'user:@host' - a colon with an empty password
    at = bool(user or pw) or colon or rng.random() < 0.1  # '@host' - an empty userinfo
    port = rng.choice([b"", b"", b":80", b":8080", b":"])
    segs = [rng.choice([b"a", b"b", b".", b"..", b"", b"x%2Fy", b"%41%2e", esc(rng, b"dir", 0.3), b"file.txt"]) for _ in range(rng.randint(0, 5))]
    path = (b"/" + b"/".join(segs)) if segs or rng.random() < 0.5 else b""
    query = rng.choice([None, None, b"", b"q=1", b"a=%41&b=%2f", b"x"])
    frag = rng.choice([None, None, b"frag", b"top%20x", b"sec?x=1"])
    u = scheme + b"://" + (user + (b":" + pw if colon else b"") + b"@" if at else b"") + host + port + path
    if query is not None:
        u += b"?" + query
    if frag is not None:
        u += b"#" + frag
    return u


def t5(nodes):
    return [(n.type, n.value, n.obfuscation, n.start, n.end) for n in nodes]


def bounded_url_parts(tier, seed):
    """C12 (URL half) + C10 (URL value): real find_urls on generated URLs against the reference above."""
    from multidecoder.decoders import network as N

    rng = random.Random(seed)
    failures, n, distinct = [], 0, set()
    fixed = [b"http://a.com/p?#frag", b"http://a.com/%41%42/x?q=%41#f", b"http://%61.com/p", b"http://a.com/../a", b"http://example.com/a//../b", b"http://example.com/a/b?#frag",
             b"http://example.com/page#section?x=1", b"http://update.example.com./x", b"http://example.com/a%2fb?next=%3a%2f", b"http://a.com/./x/../y/.", b"https://john:pw@www.example.com:123/f/?tag=n#top",
             b"http://example.com/a%5b0%5d%5c%5e%60%7b%7c%7d%40%3a/x", b"http://example.com/%5F%2D%2E%7E%41%7a%30/y", b"http://@example.com/x", b"http://u:@example.com/x", b"http://:pw@example.com/x", b"http://:@example.com/x", b"http://a@b@example.com/x"]
    cases = fixed + [gen_url(rng) for _ in range(400 if tier == "quick" else 8000)]
    for text in cases:
        data = b"see " + text + b" now"
        n += 1
        distinct.add(text)
        try:
            hits = N.find_urls(data)
        except Exception as e:  # noqa: BLE001
            failures.append({"id": f"find_urls raises {type(e).__name__}", "function": "multidecoder.decoders.network.find_urls", "obligation": "safe", "case": {"url": text.hex()}, "observed": f"{text!r}: {type(e).__name__}: {e}"})
            continue
        if not hits:
            continue  # not accepted as a URL (validators): nothing to check
        h = hits[0]
        covered = data[h.start : h.end]
        errs = []
        want_val = norm_pct(covered)
        if h.value != want_val:
            errs.append(f"C10 value {h.value!r} != normalised text {want_val!r}")
        if (h.obfuscation == "escape.percent") != (len(want_val) < len(covered)):
            errs.append(f"C10 label {h.obfuscation!r} for text {covered!r} -> {want_val!r}")
        try:
            ref = url_reference(h.value)
        except ValueError:
            ref = None
        if ref is not None and t5(h.children) != ref:
            errs.append(f"C12 parts of {h.value!r}: {t5(h.children)!r} expected {ref!r}")
        for c in h.children:
            if not (0 <= c.start <= c.end <= len(h.value)):
                errs.append(f"C12 part {c.type} span [{c.start},{c.end}) outside the value")
        for e in errs:
            key = e.split(" ")[0] + " " + e.split(" ")[1]
            if sum(1 for f in failures if f["id"].startswith(key)) < 2:
                failures.append({"id": f"{key}: {text[:40]!r}", "function": "multidecoder.decoders.network.find_urls", "where": ["parse_url", "parse_authority", "parse_ip", "parse_ipv6", "is_url", "normalize_percent_encoding"], "obligation": "bounded/url", "case": {"url": text.hex()}, "observed": e})
    return {"evaluations": n, "distinct_nontrivial": len(distinct), "scope": "hand-written URLs + seeded URLs from a grammar (schemes in mixed case, userinfo, ports, IPv4/obfuscated/IPv6/domain hosts, dot segments, escapes in every component, empty query, fragment)",
            "failures": failures, "samples": [{"url": cases[-1].hex()}]}


def replay_url(case):
    r_text = bytes.fromhex(case["url"])
    from multidecoder.decoders import network as N

    data = b"see " + r_text + b" now"
    hits = N.find_urls(data)
    if not hits:
        return True, "not reported as a URL"
    h = hits[0]
    covered = data[h.start : h.end]
    if h.value != norm_pct(covered):
        return False, f"value {h.value!r} != {norm_pct(covered)!r}"
    if (h.obfuscation == "escape.percent") != (len(h.value) < len(covered)):
        return False, f"label {h.obfuscation!r}"
    try:
        ref = url_reference(h.value)
    except ValueError:
        return True, "unparsable"
    return t5(h.children) == ref, f"parts {t5(h.children)!r} expected {ref!r}"


def bounded_normalize_path(tier, seed):
    """C12: normalize_path against the dot-segment reference, EXHAUSTIVELY over paths of up to 5 segments from a 7-symbol set."""
    import itertools

    from multidecoder.decoders.network import normalize_path

    syms = [b"", b".", b"..", b"a", b"b%2Fc", b"%2e", b"%2E%2e"]
    failures, n = [], 0
    for L in range(1, 6 if tier == "quick" else 7):
        for tup in itertools.product(syms, repeat=L):
            for lead in (b"/", b""):
                p = lead + b"/".join(tup)
                n += 1
                got = normalize_path(p)
                v, rem = dot_segments(p)
                want = (v, "url.dotpath" if rem else "")
                if got != want and len(failures) < 3:
                    failures.append({"id": f"normalize_path({p!r})", "function": "multidecoder.decoders.network.normalize_path", "obligation": "bounded/dotseg", "case": {"path": p.hex()}, "observed": f"normalize_path({p!r}) = {got!r}, reference {want!r}"})
    return {"evaluations": n, "distinct_nontrivial": n, "exhaustive": True, "scope": "all paths of 1..5 segments over {'', '.', '..', 'a', 'b%2Fc', '%2e', '%2E%2e'}, rooted and not", "failures": failures, "samples": [{"path": b"/a/../b".hex()}]}


WINPATHS = [
    rb"c:\temp\test-file.txt", rb"c:\temp\foo\..\.\.\test-file", rb"c:\temp\foo\..\.\payload.exe", rb"\\127.0.0.1\c$\temp\test-file.txt", rb"\\some-domain.com@SSL\SERVER\file",
    rb"\\?\UNC\127.0.0.1\path\file.exe", rb"\\host.example.org\share\..\lib.dll", rb"\\.\c:\temp\.\x\..\prog.exe", rb"..\temp\dir\..\name.dll", rb"c:\aaa\.\bbb\ccc.exe",
    rb"\\?\UNC\server.example.com\share\dir\..\file.txt", rb"\\0x7f.0.0.1\share\abc\file.exe",
    # the file name's text also occurs earlier in the path: the child must index the LAST segment
    rb"c:\test.exe.bak\test.exe", rb"c:\data.txt\a.txt", rb"\\run.bat.example.com\share\run.bat", rb"c:\lib.dll\sub\..\lib.dll",
]


def bounded_windows_path(tier, seed):
    """C12 (Windows half): value is the normalised path, labelled iff shortened; host / file-name children index the value."""
    from multidecoder.decoders.path import find_windows_path

    rng = random.Random(seed)
    failures, n = [], 0
    cases = list(WINPATHS)
    for _ in range(150 if tier == "quick" else 3000):
        root = rng.choice([rb"c:" + b"\\", rb"\\srv.example.com" + b"\\sh" + b"\\", rb"\\10.1.2.3" + b"\\c$" + b"\\", b"\\\\?\\UNC\\host.example.net\\share\\", b"..\\", b"\\\\.\\c:\\"])
        segs = [rng.choice([b".", b"..", b"aaa", b"bbb-c", b"dir.d"]) for _ in range(rng.randint(1, 4))]
        name = rng.choice([b"file.exe", b"lib.dll", b"notes.txt", b"noext", b"a.b.c"])
        cases.append(root + b"\\".join(segs) + b"\\" + name)
    for text in cases:
        data = b"open " + text + b" "
        n += 1
        try:
            hits = find_windows_path(data)
        except Exception as e:  # noqa: BLE001
            failures.append({"id": f"find_windows_path raises {type(e).__name__}", "function": "multidecoder.decoders.path.find_windows_path", "obligation": "safe", "case": {"winpath": text.hex()}, "observed": f"{text!r}: {type(e).__name__}: {e}"})
            continue
        for h in hits:
            covered = data[h.start : h.end]
            errs = []
            want = ntpath.normpath(covered)
            if h.value != want:
                errs.append(f"value {h.value!r} != normpath {want!r}")
            if (h.obfuscation == "windows.dotpath") != (len(want) < len(covered)):
                errs.append(f"label {h.obfuscation!r} for {covered!r} -> {want!r}")
            for c in h.children:
                if not (0 <= c.start <= c.end <= len(h.value)):
                    errs.append(f"child {c.type} span [{c.start},{c.end}) outside the value (len {len(h.value)})")
                elif c.type in ("executable.filename", "executable.library.filename", "filename") and h.value[c.start : c.end] != c.value:
                    errs.append(f"file-name child {c.value!r} does not index its text in {h.value!r}: {h.value[c.start:c.end]!r}")
                elif c.type == "network.domain" and h.value[c.start : c.end] != c.value:
                    errs.append(f"host child {c.value!r} does not index its text: {h.value[c.start:c.end]!r}")
                elif c.type == "network.ip" and canon_ip(h.value[c.start : c.end]) != c.value:
                    errs.append(f"ip child {c.value!r} does not decode from {h.value[c.start:c.end]!r}")
            fn = h.value.split(b"\\")[-1]
            if ntpath.splitext(fn)[1] and not any(c.value == fn and c.end == len(h.value) for c in h.children):
                errs.append(f"no file-name child for {fn!r}")
            for e in errs:
                key = " ".join(e.split(" ")[:2])
                if sum(1 for f in failures if f["id"].startswith(key)) < 2:
                    failures.append({"id": f"{key}: {text[:40]!r}", "function": "multidecoder.decoders.path.find_windows_path", "obligation": "bounded/winpath", "case": {"winpath": text.hex()}, "observed": f"{text!r}: {e}"})
    return {"evaluations": n, "distinct_nontrivial": len(set(cases)), "scope": "hand-written and generated drive / UNC / device paths with dot segments and file names", "failures": failures, "samples": [{"winpath": WINPATHS[1].hex()}]}


def bounded_indicator_nodes(tier, seed):
    """C10: every network.* node in scans of indicator-rich inputs is well-formed and normalised."""
    from multidecoder.decoders.network import is_domain
    from multidecoder.multidecoder import Multidecoder
    from props import fuzz

    rng = random.Random(seed)
    md = Multidecoder()
    inputs = [b"ip 192.168.001.010 and 172.016.254.001 x", b"http://update.example.com./x", b"\\\\host.example.org.\\share\\file.exe", b"mail john.doe@example.com ok", b"http://example.com/a%2fb?next=%3a%2f",
              b"visit www.example-site.org today", b"1.2.3.4 <t>", b" 10.20.30.40 ",
              # context truncation (quote / bracket before the URL, its partner inside the match; a Pascal-string length byte): what is left must still be a URL with a host
              b"x 'http://user@'@example.com/login y", b"(http://a:b@)@example.com/ z", b"\x00" * 12 + b"\x09http://a@0example.com/", b"'http://example.com/a'b/c'", b"(http://example.com/x)y",
              b"see http://[2001:DB8::1]:8080/ and http://[2001:db8::1]/ x",
              # escapes before / after the closing character of a quoted or bracketed URL: value and label are those of the text the node covers
              b"x 'http://example.com/%61%62c/index'+suffix y", b"(http://example.com/path)%41%42 z", b"'http://example.com/a%2fb'%61 q", b"(http://example.com/%7Euser/x)%2e"]
    for _ in range(120 if tier == "quick" else 3000):
        parts = [rng.choice([gen_url(rng), gen_ip(rng), gen_domain(rng), b"user" + str(rng.randint(0, 99)).encode() + b"@" + gen_domain(rng), b"0" + gen_ip(rng)]) for _ in range(3)]
        inputs.append(b" ".join(parts))
    failures, n, kinds = [], 0, set()
    for data in inputs:
        try:
            tree = fuzz.with_timeout(20, md.scan, data)
        except Exception:  # noqa: BLE001
            continue
        for node in tree:
            if not node.type.startswith("network."):
                continue
            n += 1
            kinds.add((node.type, node.parent.type))
            errs = []
            text = node.parent.value[node.start : node.end]
            free = node.parent.type not in ("network.url", "windows.unc.path", "windows.device.path")
            if node.type == "network.ip":
                try:
                    ok = str(ipaddress.IPv4Address(node.value.decode())).encode() == node.value
                except Exception:  # noqa: BLE001
                    ok = False
                if not ok:
                    errs.append(f"ip value {node.value!r} is not a canonical dotted quad")
                if free and node.value != text:
                    errs.append(f"free-text ip value {node.value!r} differs from the text it covers {text!r}")
            elif node.type == "network.domain":
                name, _, tld = node.value.rpartition(b".")
                if not (name and tld and is_domain(b"x." + tld)):
                    errs.append(f"domain value {node.value!r} is not name + '.' + registered TLD")
                if free and (not re.fullmatch(rb"[A-Za-z0-9.-]+", node.value) or len(node.value) < 7):
                    errs.append(f"free-text domain {node.value!r} is not LDH / shorter than 7")
            elif node.type == "network.email":
                local, _, dom = node.value.rpartition(b"@")
                n2, _, t2 = dom.rpartition(b".")
                if not (local and n2 and t2 and is_domain(b"x." + t2)):
                    errs.append(f"email {node.value!r} is not local@domain")
            elif node.type == "network.url":
                u = urlsplit(node.value)
                if u.scheme not in (b"http", b"https", b"ftp") or not u.hostname:
                    errs.append(f"url {node.value!r} has scheme {u.scheme!r} / host {u.hostname!r}")
                if node.value != norm_pct(text):
                    errs.append(f"url value {node.value!r} != normalised text {norm_pct(text)!r}")
                if (node.obfuscation == "escape.percent") != (len(norm_pct(text)) < len(text)):
                    errs.append(f"url label {node.obfuscation!r} for {text!r}")
            for e in errs:
                key = " ".join(e.split(" ")[:2])
                if sum(1 for f in failures if f["id"].startswith(key)) < 2:
                    failures.append({"id": f"{key}: {data[:40]!r}", "function": "multidecoder.decoders.network", "obligation": "bounded/C10", "case": {"scan_net": data.hex()}, "observed": f"{data!r}: {e}"})
    return {"evaluations": n, "distinct_nontrivial": len(kinds), "scope": "network.* nodes in scans of hand-written and generated indicator-rich inputs (default registry)", "failures": failures, "samples": [{"scan_net": inputs[0].hex()}]}


def replay(case):
    if "url" in case:
        return replay_url(case)
    fn = {"path": bounded_normalize_path, "winpath": bounded_windows_path, "scan_net": bounded_indicator_nodes}
    for k, f in fn.items():
        if k in case:
            r = f("quick", 0)
            bad = [x for x in r["failures"] if x["case"] == case]
            return (not bad, bad[0]["observed"] if bad else "holds on this input (quick scope)")
    return True, "unknown case"
