"""Executable value oracles for the decoding properties C13 / C14 / C15 (bounded stand-ins).

Each case encodes a payload with an encoder written from the property text, embeds it between neutral delimiters at
several offsets and calls the REAL decoder: it must return a node with exactly the expected span, type, label and value.
"""
from __future__ import annotations

import base64
import binascii
import random
import urllib.parse

PRE = [b"", b" ", b"x = ", b";\n", b"\x00 ", b"( "]
POST = [b"", b" ", b";", b"\n", b" )", b" tail"]


def _mod(name):
    import importlib

    return importlib.import_module("multidecoder.decoders." + name)


def payloads(rng, n, minlen=1, maxlen=24, alphabet=None):
    out = []
    for _ in range(n):
        L = rng.randint(minlen, maxlen)
        if alphabet:
            out.append(bytes(rng.choice(alphabet) for _ in range(L)))
        else:
            out.append(bytes(rng.randrange(256) for _ in range(L)))
    return out


def b64_acceptable(b: bytes) -> bool:
    import re

    return (len(b) % 4 == 0 and len(b) >= 22 and len(set(b)) > 6 and not re.fullmatch(rb"(?i)[a-f0-9]+", b) and not re.fullmatch(rb"(?i)[a-z]+", b)
            and b.count(b"/") / len(b) <= 3 / 32)


def cases_C13(rng, tier):
    n = 60 if tier == "quick" else 1500
    out = []
    for p in payloads(rng, n, 15, 40):
        e = base64.b64encode(p)
        if b64_acceptable(e.rstrip(b"=")) or b64_acceptable(e):
            if b64_acceptable(e):
                out.append(("base64", "find_base64", e, ("", p, "encoding.base64")))
    for p in payloads(rng, n // 2, 30, 60):
        e = base64.b64encode(p)
        if not b64_acceptable(e):
            continue
        w = rng.choice([5, 6, 7, 9, 10, 16, 19])
        sep = rng.choice([b"\n", b"\r\n", b"&#13;&#10;", b"&#xD;&#xA;"])
        lines = [e[k : k + w] for k in range(0, len(e), w)]
        if len(lines[-1].rstrip(b"=")) < 2 or len(lines) < 6:
            continue
        out.append(("base64", "find_base64", sep.join(lines), ("", p, "encoding.base64")))  # line breaks and their HTML escapes are ignored
    # bare carriage returns as line breaks (the pattern allows \r?\n?): ignored like the other breaks, whatever their number
    for p in payloads(rng, n // 4, 30, 60):
        e = base64.b64encode(p)
        if not b64_acceptable(e):
            continue
        for w in (7, 10, 19):
            lines = [e[k : k + w] for k in range(0, len(e), w)]
            if len(lines[-1].rstrip(b"=")) >= 2 and len(lines) >= 3:
                out.append(("base64", "find_base64", b"\r".join(lines), ("", p, "encoding.base64")))
    # boundary of the `more than six distinct characters` rule: seven distinct characters, one of them the padding
    found = 0
    for _ in range(20000):
        if found >= 3:
            break
        alpha = rng.sample(list(b"ABCDEFGHIJKLMNOPQRSTUVWXYZabcdefghijklmnopqrstuvwxyz0123456789+"), 6)
        body = bytes(rng.choice(alpha) for _c in range(22)) + b"=="
        if len(set(body)) != 7:
            continue
        try:
            p = base64.b64decode(body, validate=True)
        except Exception:  # noqa: BLE001
            continue
        e = base64.b64encode(p)
        if e == body and b64_acceptable(e):
            out.append(("base64", "find_base64", e, ("", p, "encoding.base64")))
            found += 1
    for p in payloads(rng, n, 1, 20):
        e = base64.b64encode(p)
        out.append(("base64", "find_atob", b"atob('" + e + b"')", ("javascript.string", p, "encoding.base64")))
        out.append(("base64", "find_atob", b'atob("' + e + b'")', ("javascript.string", p, "encoding.base64")))
        out.append(("base64", "find_Base64Decode", b'Base64Decode("' + e + b'")', ("vba.string", p, "encoding.base64")))
        out.append(("base64", "find_FromBase64String", b"FromBase64String('" + e + b"')", ("powershell.bytes", p, "encoding.base64")))
        out.append(("base64", "find_FromBase64String", b'[System.Convert]::FromBase64String("' + e + b'")', ("powershell.bytes", p, "encoding.base64")))
    for p in payloads(rng, n, 10, 30):
        h = binascii.hexlify(p)
        out.append(("hex", "find_hex", h, ("", p, "decoded.hexadecimal")))
        out.append(("hex", "find_hex", h.upper(), ("", p, "decoded.hexadecimal")))
        out.append(("hex", "find_FromHexString", b"FromHexString('" + h + b"')", ("powershell.bytes", p, "encoding.hexidecimal")))
    # hexadecimal runs that happen to contain no letter (ASCII digits, BCD-like bytes) are hexadecimal all the same
    for p in (b"0123456789", b"\x12\x34\x56\x78\x90\x11\x22\x33\x44\x55\x66", bytes(rng.choice(b"\x10\x25\x31\x47\x58\x69\x70\x83\x92\x04") for _c in range(14))):
        out.append(("hex", "find_hex", binascii.hexlify(p), ("", p, "decoded.hexadecimal")))
    return out


def cases_C14(rng, tier):
    n = 60 if tier == "quick" else 1500
    out = []
    for p in payloads(rng, n, 5, 16):
        refs = b"".join((b"&#x%02x;" % c if rng.random() < 0.5 else b"&#%d;" % c) if rng.random() < 0.8 else b"&#%03d;" % c for c in p)
        out.append(("xml", "find_xml_hex", refs, ("", p, "unescape.xml")))
    for cp in [0, 9, 65, 127, 128, 255, 256, 0x20AC, 0xD7FF, 0xE000, 0xFFFF, 99999] + [rng.randrange(0, 100000) for _ in range(n)]:
        if 0xD800 <= cp <= 0xDFFF:
            continue
        for fn in (b"chr", b"ChrW", b"chrb"):
            out.append(("chr", "find_chr", fn + b"(" + str(cp).encode() + b")", ("string", chr(cp).encode(), "function.chr")))
        out.append(("chr", "find_chr", b"chr(00" + str(cp).encode() + b")", ("string", chr(cp).encode(), "function.chr")))
    for cp in (0xD800, 0xDBFF, 0xDC00, 0xDFFF, 55555):
        out.append(("chr", "find_chr", b"chrw(" + str(cp).encode() + b")", None))  # unencodable code points are NOT reported
    for p in payloads(rng, n, 0, 16):
        q = urllib.parse.quote_from_bytes(p, safe="").encode().replace(b"'", b"%27")
        out.append(("javascript", "find_unescape", b"unescape('" + q + b"')", ("string", p, "function.unescape")))
    for p in payloads(rng, n // 2, 1, 12, list(b"ab+ /:@%41")):
        q = urllib.parse.quote_from_bytes(p, safe="+ /:@").encode()
        out.append(("javascript", "find_unescape", b"unescape('" + q + b"')", ("string", p, "function.unescape")))  # '+' and blanks stay as they are
    latin = [c for c in range(0x20, 0x100) if not (0x7F <= c <= 0x9F)]
    for p in payloads(rng, n, 7, 20, latin):
        text = p.decode("latin-1")
        out.append(("codec", "find_utf16", text.encode("utf-16-le"), ("", text.encode("utf-8"), "codec.uft-16")))
    return out


SAFE = [c for c in range(0x20, 0x7F) if chr(c) not in "\"'`\\&+_"]
SAFE_CONCAT = [c for c in range(0x20, 0x7F) if chr(c) not in "\"'`\\"]  # literal contents may contain + & _ (only a BARE operator is excluded)


def cases_C15(rng, tier):
    n = 40 if tier == "quick" else 1000
    out = []
    for _ in range(n):
        parts = [bytes(rng.choice(SAFE_CONCAT if _ % 2 else SAFE) for _c in range(rng.randint(0, 6))) for _p in range(rng.randint(2, 4))]
        parts = [pt if pt.strip(b" \t_") not in (b"+", b"&", b"&amp;") else b"x" + pt for pt in parts]
        q = rng.choice([b'"', b"'"])
        seps = [rng.choice([b"+", b" + ", b"&", b" & ", b" &amp; ", b" _\r\n & ", b"\t+\t"]) for _ in parts[1:]]
        text = q + parts[0] + q
        for sp, pt in zip(seps, parts[1:]):
            text += sp + q + pt + q
        out.append(("concat", "find_concat", text, ("string", b"".join(parts), "concatenation")))
    # literal CONTENT that contains a joint token (an HTML-escaped ampersand, a plus, an underscore) stays as it is; a literal that IS a bare joining operator is outside C15
    for a_, b_, sep in ((b"a&amp;b", b"c", b" + "), (b"q=1&amp;r=2", b"&amp;s=3", b" & "), (b"x+y", b"+z", b"+"), (b"a_b", b"_", b" _\r\n & "), (b"x&amp;", b"amp;y", b" &amp; ")):
        for q in (b'"', b"'"):
            out.append(("concat", "find_concat", q + a_ + q + sep + q + b_ + q, ("string", a_ + b_, "concatenation")))
    for p in payloads(rng, n, 0, 12, SAFE):
        for q in (b'"', b"'"):
            out.append(("reverse", "find_reverse", b"reverse(" + q + p + q + b")", ("string", p[::-1], "reverse")))
            out.append(("reverse", "find_reverse", b"reversed( " + q + p + q + b" )", ("string", p[::-1], "reverse")))
            out.append(("vba", "find_strreverse", b"StrReverse(" + q + p + q + b")", ("vba.string", p[::-1], "vba.reverse")))
    meta = set(b"/[](){}\\.+*?^$,")
    for _ in range(n):
        x = bytes(rng.choice(SAFE) for _ in range(rng.randint(0, 10)))
        a = bytes(rng.choice(SAFE) for _ in range(rng.randint(1, 3)))
        b = bytes(rng.choice(SAFE) for _ in range(rng.randint(0, 3)))
        if rng.random() < 0.5 and x:
            i = rng.randrange(len(x))
            x = x[:i] + a + x[i:]
        want = x.replace(a, b)
        for q in (b'"', b"'"):
            Q = lambda s_: q + s_ + q  # noqa: E731
            out.append(("replace", "find_replace", Q(x) + b".replace(" + Q(a) + b", " + Q(b) + b")", ("string", want, "replace")))
            out.append(("replace", "find_vba_replace", b"Replace(" + Q(x) + b", " + Q(a) + b"," + Q(b) + b")", ("vba.string", want, "vba.replace")))
            out.append(("replace", "find_powershell_replace", Q(x) + b" -replace " + Q(a) + b"," + Q(b), ("powershell.string", want, "replace")))
            if not (set(a) & meta):
                flags = rng.choice([b"", b"g", b"m", b"gm", b"mg"])
                out.append(("replace", "find_js_regex_replace", Q(x) + b".replace(/" + a + b"/" + flags + b", " + Q(b) + b")", ("javascript.string", want, "replace")))
                out.append(("replace", "find_js_regex_replace", Q(x + a + x + a) + b".replace(/" + a + b"/, " + Q(b) + b")", ("javascript.string", (x + a + x + a).replace(a, b), "replace")))
    return out


def run_cases(cases, rng, label):
    failures, n, distinct = [], 0, set()
    for modname, fname, enc, expect in cases:
        f = getattr(_mod(modname), fname)
        if expect is None:
            # negative case: nothing may be reported for this expression
            data = b"x = " + enc + b" ;"
            n += 1
            try:
                hits = f(data)
            except Exception as e:  # noqa: BLE001
                hits = [e]
            if hits and sum(1 for x in failures if x["id"].startswith(f"{label}:{fname}:neg")) < 2:
                failures.append({"id": f"{label}:{fname}:neg {enc!r}", "function": f"multidecoder.decoders.{modname}.{fname}", "obligation": f"bounded/{label}-value",
                                 "case": {"oracle": label, "module": modname, "fn": fname, "data": data.hex(), "want": None}, "observed": f"{fname}({data!r}) reports {[(getattr(h, 'type', h), getattr(h, 'value', None)) for h in hits]!r}, nothing expected"})
            continue
        typ, val, obf = expect
        pre, post = rng.choice(PRE), rng.choice(POST)
        if fname == "find_base64" and post == b"":
            post = b" "
        data = pre + enc + post
        n += 1
        distinct.add((fname, enc))
        try:
            hits = f(data)
        except Exception as e:  # noqa: BLE001
            hits = None
            obs = f"{fname} raised {type(e).__name__}: {e}"
        if hits is not None:
            want = (typ, val, obf, len(pre), len(pre) + len(enc))
            got = [(h.type, h.value, h.obfuscation, h.start, h.end) for h in hits]
            if want in got:
                if len(distinct) % 5:
                    continue
                # the same expression a second time in the same text: each occurrence is reported, at its own offset (no de-duplication by value or argument)
                mid = b" ;\n "
                data = pre + enc + mid + enc + post
                n += 1
                try:
                    got = [(h.type, h.value, h.obfuscation, h.start, h.end) for h in f(data)]
                except Exception as e:  # noqa: BLE001
                    got = [f"{type(e).__name__}: {e}"]
                o2 = len(pre) + len(enc) + len(mid)
                want2 = (typ, val, obf, o2, o2 + len(enc))
                if want in got and want2 in got:
                    continue
                want = want2 if want in got else want
            obs = f"{fname}({data!r}): expected a node {want!r}, got {got!r}"
        key = f"{label}:{fname}"
        if sum(1 for x in failures if x["id"].startswith(key)) < 2:
            failures.append({"id": f"{key}: {enc[:24]!r}", "function": f"multidecoder.decoders.{modname}.{fname}", "obligation": f"bounded/{label}-value",
                             "case": {"oracle": label, "module": modname, "fn": fname, "data": data.hex(), "want": [want[0], want[1].hex(), want[2], want[3], want[4]] if hits is not None else [typ, val.hex(), obf, len(pre), len(pre) + len(enc)]}, "observed": obs})
    return {"evaluations": n, "distinct_nontrivial": len(distinct), "failures": failures, "samples": [{"fn": c[1], "encoded": c[2][:60].hex()} for c in cases[:2]]}


def bounded(label, gen):
    def b(tier, seed):
        rng = random.Random(seed)
        r = run_cases(gen(rng, tier), rng, label)
        r["scope"] = f"{label}: seeded random payloads per encoder (see props/oracles.py), embedded between neutral delimiters at random offsets"
        return r

    b.__name__ = f"bounded_values_{label}"
    return b


def replay(case):
    f = getattr(_mod(case["module"]), case["fn"])
    data = bytes.fromhex(case["data"])
    if case["want"] is None:
        try:
            hits = f(data)
        except Exception as ex:  # noqa: BLE001
            return False, f"raised {type(ex).__name__}: {ex}"
        return (not hits, f"reports {[(h.type, h.value) for h in hits]!r}, nothing expected")
    typ, val, obf, s, e = case["want"]
    want = (typ, bytes.fromhex(val), obf, s, e)
    try:
        got = [(h.type, h.value, h.obfuscation, h.start, h.end) for h in f(data)]
    except Exception as ex:  # noqa: BLE001
        return False, f"raised {type(ex).__name__}: {ex}"
    return want in got, f"expected {want!r}, got {got!r}"
