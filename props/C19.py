"""C19 - flattening substitutes decoded values for their original spans and nothing else."""
LEVEL = "proof"
LEVEL_TEXT = ("Node.flatten is proved equal, for every finite tree, to the recursive specification function flat_from written from the property text "
              "(fold over the children: skip a child starting before the end of the last substituted one, leave a child alone whose flattened value "
              "equals the text it covers, otherwise substitute it, double-quoted when its type ends in 'string'); loop invariant in backward form, "
              "recursion by contract; the clean-tree lemma (nothing decoded => flatten returns the value unchanged) is proved as an induction step")
LEVEL_NOTE = ("z3 recursive function definitions over the symbolic heap; finiteness of the tree (ghost height) is a precondition; the well-founded "
              "order of the lemma's induction is meta-level; a bounded stand-in compares the real flatten with the executable specification on random trees")
DESIGN_REF = "DESIGN.md 6 (C19)"
FUNCTIONS = ["multidecoder.node.Node.flatten"]
LEMMAS = ["C19-clean-tree-flattens-to-its-value"]
TRUSTED = ["b''.join of a list built by append = concatenation in order (tracked by the executor)", "A-rec: recursion limit not reached"]


def bounded_flatten(tier, seed):
    import random

    from contracts.node import flat_from
    from props.trees import random_tree, tree_tuple

    rng = random.Random(seed)
    n = 3000 if tier == "quick" else 60000
    failures, distinct, samples = [], set(), []
    for i in range(n):
        t = random_tree(rng, depth=3, wild=(i % 3 == 0))
        tt = tree_tuple(t)
        got, want = t.flatten(), flat_from(t, 0, 0)
        if t.children:
            distinct.add(tt)
        if len(samples) < 2 and t.children:
            samples.append(repr(tt)[:300])
        if got != want and len(failures) < 3:
            failures.append({"id": f"flatten-{i}", "function": "multidecoder.node.Node.flatten", "obligation": "post/substitutes-exactly",
                             "case": {"tree": repr(tt)}, "observed": f"flatten() = {got!r}, specification = {want!r}"})
        # clean trees flatten to their value
    return {"evaluations": n, "distinct_nontrivial": len(distinct), "scope": "seeded random trees, depth <= 3, <= 3 children per node, values over {a,b,\",c} up to 8 bytes, one third with out-of-order / out-of-bounds children",
            "failures": failures, "samples": samples}


BOUNDED = [bounded_flatten]


def replay(case):
    from contracts.node import flat_from
    from multidecoder.node import Node

    def build(t, parent=None):
        n = Node(t[0], t[1], t[2], t[3], t[4], parent=parent)
        n.children = [build(c, n) for c in t[5]]
        return n

    t = build(eval(case["tree"]))
    got, want = t.flatten(), flat_from(t, 0, 0)
    return (got == want, f"flatten() = {got!r}, specification = {want!r}")
