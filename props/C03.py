"""C03 - the result is a well-formed tree over the input with in-bounds spans (engine half)."""
from props.engine_common import *  # noqa: F403

LEVEL = "proof"
LEVEL_TEXT = ("for every registry meeting DecoderOK, every input and depth, Multidecoder.scan / scan_node are proved (loop invariants G1/G2, "
              "transition clause E1, postconditions of scan) to keep the global tree invariant: every child-list entry c of every node p has "
              "c.parent is p and 0 <= c.start <= c.end <= len(p.value), siblings are distinct objects, the root is a fresh node carrying the "
              "unmodified input; Node.__init__/shift/original/shift_nodes are proved against their contracts")
LEVEL_NOTE = ("assumes DecoderOK of the registry entries (the shipped decoders are checked against it under C01/C03 decoder obligations as they are "
              "brought under contract), the stable-sort contract of sorted(); acyclicity of the result is argued, not proved; a bounded stand-in "
              "(real engine on enumerated hit configurations) runs next to the proof")
DESIGN_REF = "DESIGN.md 5, 6 (C03)"
FUNCTIONS = ENGINE_FUNCS + ["multidecoder.node.shift_nodes"]
EXCLUDE_CLAUSES = CORE_ONLY
TRUSTED = ENGINE_TRUSTED
BOUNDED = [engine_bounded(("C03",))]
