"""C03 - the result is a well-formed tree over the input with in-bounds spans (engine half)."""
from props.engine_common import *  # noqa: F403

LEVEL = "proof"
LEVEL_TEXT = ("for every registry meeting DecoderOK, every input and depth, Multidecoder.scan / scan_node are proved (loop invariants G1/G2, "
              "transition clause E1, postconditions of scan) to keep the global tree invariant: every child-list entry c of every node p has "
              "c.parent is p and 0 <= c.start <= c.end <= len(p.value), siblings are distinct objects, the root is a fresh node carrying the "
              "unmodified input; Node.__init__/shift/original/shift_nodes are proved against their contracts")
LEVEL_NOTE = ("the engine proof assumes DecoderOK of the registry entries; DecoderOK (spans, parent links, freshness, write frame) is PROVED for every decoder "
              "the default registry ships (the keyword searchers through find_keywords), under the assumed contracts of the library code named in the evidence and with the recorded "
              "find_powershell_strings findings carved out; the stable-sort contract of sorted() is assumed; acyclicity of the result is argued, not proved; a bounded stand-in "
              "(real engine on enumerated hit configurations) runs next to the proof")
DESIGN_REF = "DESIGN.md 5, 6 (C03)"
from props import decoder_common as DC  # noqa: E402

FUNCTIONS = ENGINE_FUNCS + ["multidecoder.node.shift_nodes", "multidecoder.xor_helper.apply_xor_key", "multidecoder.decoders.shell.find_cmd_strings", "multidecoder.decoders.shell.find_powershell_strings"] + DC.SIMPLE_DECODERS
EXCLUDE_CLAUSES = CORE_ONLY
# the decoders' value / label clauses belong to C10-C16; C03 takes their span, parent-link, freshness and frame obligations
SELECT = [r"^(?!.*(value-|/each/type|/each/label|each-type|each-label|post-each/type|post-each/label|cmd-exe|not-past-the-cut|before-the-cut)).*$"]
TRUSTED = ENGINE_TRUSTED + [DC.NOT_UNDER_CONTRACT]
BOUNDED = [engine_bounded(("C03",)), DC.bounded_decoder_spans, DC.bounded_scan_wf]


def replay(case):
    if "text" in case:
        from props import engine_rt

        return engine_rt.replay(case)
    return DC.replay(case)

DEMOTED = {r"find_windows_path/safe/IndexError@L\d+:list index": "segments[3] / segments[4] of a device path need the shape of ntpath.normpath's result (at least five pieces after the \\\\.\\ prefix), which is opaque to the encoding; covered by the run-time stand-in",
           r"find_powershell_strings/safe/IndexError@L\d+:list index": "args[0] needs `the invocation part of a two-word right-split is not blank` through split / join of '/', which the split model does not provide; covered by the run-time stand-in",
           r"find_cmd_strings/safe/IndexError@L\d+:list index": "split[0] needs `the de-escaped match contains a non-blank byte` (a fact about caret_from over L(CMD_RE)) which z3 cannot derive; covered by the run-time stand-in"}
