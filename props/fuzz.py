"""Run-time stand-ins shared by the decoder properties: members of the REAL patterns' languages are sampled from the
pattern's parse tree, embedded in neutral text, and the real decoders / the real scan are run on them with the
run-time form of the contracts (DecoderOK clauses, totality, value oracles).  Bounded - never counted as proved."""
from __future__ import annotations

import random
import re._constants as C
import re._parser as P
import signal

INTERESTING = b"^\r\n\"'()/\\%&#;:@.-_=+xX0aZz9 \x00\xff,<>t"


class Sampler:
    """Random member of L(P°) (look-arounds and anchors ignored) from CPython's parse of the pattern."""

    def __init__(self, pattern: bytes, rng: random.Random, max_rep=3):
        src = pattern.decode("latin-1")
        if src.startswith("(?r)"):
            src = src[4:]
        self.tree = P.parse(src)
        self.flags = self.tree.state.flags
        self.rng = rng
        self.max_rep = max_rep

    def sample(self) -> bytes:
        return bytes(self.seq(self.tree, self.flags))

    def seq(self, s, flags):
        out = []
        for op, av in s:
            out.extend(self.item(op, av, flags))
        return out

    def pick(self, allowed):
        allowed = sorted(allowed)
        pref = [c for c in allowed if c in INTERESTING]
        if pref and self.rng.random() < 0.5:
            return self.rng.choice(pref)
        return self.rng.choice(allowed)

    def setof(self, items, icase):
        s, neg = set(), False
        for op, av in items:
            if op is C.NEGATE:
                neg = True
            elif op is C.LITERAL:
                s.add(av)
            elif op is C.RANGE:
                s.update(range(av[0], min(av[1], 255) + 1))
            elif op is C.CATEGORY:
                s.update(self.cat(av))
        if icase:
            s |= {c ^ 32 for c in s if 65 <= c <= 90 or 97 <= c <= 122}
        if neg:
            s = set(range(256)) - s
        return {c for c in s if c < 256}

    def cat(self, av):
        word = set(range(48, 58)) | set(range(65, 91)) | set(range(97, 123)) | {95}
        digit = set(range(48, 58))
        space = {9, 10, 11, 12, 13, 32}
        allb = set(range(256))
        return {C.CATEGORY_DIGIT: digit, C.CATEGORY_NOT_DIGIT: allb - digit, C.CATEGORY_SPACE: space, C.CATEGORY_NOT_SPACE: allb - space,
                C.CATEGORY_WORD: word, C.CATEGORY_NOT_WORD: allb - word}[av]

    def item(self, op, av, flags):
        import re

        icase = bool(flags & re.IGNORECASE)
        if op is C.LITERAL:
            c = av
            if icase and (65 <= c <= 90 or 97 <= c <= 122) and self.rng.random() < 0.5:
                c ^= 32
            return [c] if c < 256 else [63]
        if op is C.NOT_LITERAL:
            return [self.pick(set(range(256)) - {av})]
        if op is C.ANY:
            return [self.pick(set(range(256)) - ({10} if not flags & re.DOTALL else set()))]
        if op is C.IN:
            return [self.pick(self.setof(av, icase))]
        if op is C.BRANCH:
            return self.seq(self.rng.choice(av[1]), flags)
        if op in (C.MAX_REPEAT, C.MIN_REPEAT):
            lo, hi, sub = av
            hi = lo + self.max_rep if hi is C.MAXREPEAT else hi
            n = self.rng.randint(lo, max(lo, min(hi, lo + self.max_rep)))
            out = []
            for _ in range(n):
                out.extend(self.seq(sub, flags))
            return out
        if op is C.SUBPATTERN:
            return self.seq(av[3], (flags | av[1]) & ~av[2])
        if op in (C.AT, C.ASSERT, C.ASSERT_NOT):
            return []
        raise ValueError(op)


def embed(rng, payload: bytes):
    pre = rng.choice([b"", b" ", b"x = ", b"\n", b"(", b"'", b"\"", b"cmd /c ", b"<t>", b"a\x00"])
    post = rng.choice([b"", b" ", b";", b"\n", b")", b"'", b"\"", b" tail", b"\x00"])
    return pre + payload + post


class Timeout(Exception):
    pass


def with_timeout(seconds, fn, *a):
    def h(signum, frame):
        raise Timeout()

    old = signal.signal(signal.SIGALRM, h)
    signal.alarm(seconds)
    try:
        return fn(*a)
    finally:
        signal.alarm(0)
        signal.signal(signal.SIGALRM, old)


def decoder_ok_errors(fn, data: bytes):
    """Run-time form of DecoderOK(f) on one input: raises nothing; parentless, in-bounds hits; well-formed children."""
    try:
        hits = with_timeout(10, fn, data)
    except Timeout:
        return [f"{fn.__name__} did not terminate within 10 s"]
    except Exception as e:  # noqa: BLE001
        import traceback

        frames = [f for f in traceback.extract_tb(e.__traceback__) if "multidecoder" in f.filename and not f.name.startswith("<")]
        where = frames[-1].name if frames else fn.__name__
        return [f"{fn.__name__} raised {type(e).__name__}: {e} ({where})"]
    errs = []
    seen = set()
    # DecoderOK (a): the nodes are freshly allocated by THIS call - a second call on equal bytes must not hand out the same objects
    try:
        again = with_timeout(10, fn, bytes(bytearray(data)))
        first_ids = set()
        stack = list(hits)
        while stack:
            x = stack.pop()
            first_ids.add(id(x))
            stack.extend(x.children)
        stack = list(again)
        while stack:
            x = stack.pop()
            if id(x) in first_ids:
                errs.append(f"a second call on equal bytes returns a node object ({x.type!r}) that an earlier call already returned")
                break
            stack.extend(x.children)
    except Exception:  # noqa: BLE001
        pass
    for h in hits:
        if id(h) in seen:
            errs.append("the same node object is returned twice")
        seen.add(id(h))
        if h.parent is not None:
            errs.append(f"hit {h.type} has a parent")
        if not (0 <= h.start <= h.end <= len(data)):
            how = ""
            if fn.__name__ == "find_powershell_strings" and h.end == len(data) - h.start:
                how = " {no-context branch: end = len(data) - start}"
            errs.append(f"hit {h.type!r} span [{h.start},{h.end}) outside data of length {len(data)}{how}")
        stack = [h]
        while stack:
            p = stack.pop()
            for c in p.children:
                if c.parent is not p:
                    errs.append(f"child {c.type!r} of {p.type!r} has a wrong parent link")
                if not (0 <= c.start <= c.end <= len(p.value)):
                    how = ""
                    if fn.__name__ == "find_powershell_strings" and p.type == "shell.cmd" and c.type == "shell.powershell" and c.start == 0 and c.end == len(c.value):
                        how = " {powershell child spans its OWN rewritten value, not the caret-unescaped parent}"
                    errs.append(f"child {c.type!r} span [{c.start},{c.end}) outside its parent {p.type!r} value of length {len(p.value)}{how}")
                stack.append(c)
    return errs


def all_decoders():
    from multidecoder.registry import get_analyzers

    return get_analyzers()


def pattern_constants():
    """{module.NAME: bytes} for every *_RE constant of the decoder modules (read from the real modules)."""
    import importlib
    import pkgutil

    import multidecoder.decoders as D

    out = {}
    for m in pkgutil.iter_modules(D.__path__):
        mod = importlib.import_module("multidecoder.decoders." + m.name)
        for k, v in vars(mod).items():
            if k.endswith("_RE") and isinstance(v, bytes):
                out[f"{m.name}.{k}"] = v
    import multidecoder.xor_helper as xh

    out["xor_helper.XOR_RE"] = xh.XOR_RE
    return out


def scan_total_errors(data: bytes, depth=None):
    """C01: scan returns a tree and every read-only view completes."""
    from multidecoder.json_conversion import tree_to_json
    from multidecoder.multidecoder import Multidecoder
    from multidecoder.query import string_summary

    md = scan_total_errors.md if hasattr(scan_total_errors, "md") else Multidecoder()
    scan_total_errors.md = md
    try:
        tree = with_timeout(20, (lambda: md.scan(data) if depth is None else md.scan(data, depth)))
        tree.flatten()
        list(tree)
        string_summary(tree)
        tree_to_json(tree)
    except Timeout:
        return ["scan (or a view) did not terminate within 20 s"], None
    except Exception as e:  # noqa: BLE001
        import traceback

        frames = [f for f in traceback.extract_tb(e.__traceback__) if "multidecoder" in f.filename]
        named = [f for f in frames if not f.name.startswith("<")]
        tb = named[-1] if named else frames[-1]
        return [f"{type(e).__name__}: {e} at {tb.filename.split('/')[-1]}:{tb.lineno} ({tb.name})"], None
    return [], tree


def mkpe(ptr_raw, size_raw, total):
    """A minimal PE image with one section (pointer, size of raw data) padded to `total` bytes."""
    import struct

    dos = bytearray(0x40)
    dos[0:2] = b"MZ"
    struct.pack_into("<I", dos, 0x3C, 0x40)
    coff = struct.pack("<4sHHIIIHH", b"PE\0\0", 0x14C, 1, 0, 0, 0, 0xE0, 0x102)
    opt = bytearray(0xE0)
    struct.pack_into("<H", opt, 0, 0x10B)
    struct.pack_into("<I", opt, 0x20, 0x1000)
    struct.pack_into("<I", opt, 0x24, 0x200)
    struct.pack_into("<I", opt, 0x5C, 16)
    sec = struct.pack("<8sIIIIIIHHI", b".text", 0x1000, 0x1000, size_raw, ptr_raw, 0, 0, 0, 0, 0x60000020)
    d = bytes(dos) + coff + bytes(opt) + sec
    return d + b"\0" * (total - len(d)) if total > len(d) else d


def mkpe_sections(sections, total=None):
    """A minimal PE image with several sections, given as (pointer to raw data, size of raw data) in SECTION-TABLE order (which need not be file order)."""
    import struct

    dos = bytearray(0x40)
    dos[0:2] = b"MZ"
    struct.pack_into("<I", dos, 0x3C, 0x40)
    coff = struct.pack("<4sHHIIIHH", b"PE\0\0", 0x14C, len(sections), 0, 0, 0, 0xE0, 0x102)
    opt = bytearray(0xE0)
    struct.pack_into("<H", opt, 0, 0x10B)
    struct.pack_into("<I", opt, 0x20, 0x1000)
    struct.pack_into("<I", opt, 0x24, 0x200)
    struct.pack_into("<I", opt, 0x5C, 16)
    table = b"".join(struct.pack("<8sIIIIIIHHI", b".s%d" % k, 0x1000, 0x1000 * (k + 1), size, ptr, 0, 0, 0, 0, 0x60000020) for k, (ptr, size) in enumerate(sections))
    d = bytes(dos) + coff + bytes(opt) + table
    end = max(ptr + size for ptr, size in sections) if total is None else total
    return d + b"\0" * (end - len(d)) if end > len(d) else d


def corpus(tier, seed):
    """Inputs for the decoder stand-ins: members of every real pattern (embedded), hand-picked edge cases, random bytes."""
    rng = random.Random(seed)
    pats = pattern_constants()
    n_each = 40 if tier == "quick" else 600
    out = []
    for name, p in sorted(pats.items()):
        try:
            sm = Sampler(p, rng)
        except Exception:  # noqa: BLE001
            continue
        for _ in range(n_each):
            try:
                s = sm.sample()
            except Exception:  # noqa: BLE001
                break
            out.append((name, embed(rng, s)))
    edge = [
        b"", b"^", b"cmd ^", b"cmd ^\r", b"cmd ^\r\n", b"cmd /c a) bcd efg", b"cmd \"  /c   x", b"powershell/e^\r\nAAAA", b"x \"powershell -nop",
        b"p^owershell -e AAAA", b"&#xzz;" * 5, b"&#300;" * 5, b"chr(99999)", b"chr(55296)", b'FromBase64String("QUJDREVGRw==") -bxor 999',
        b"MZ" + b"\x00" * 70, b"http://a.com/p?#frag", b"http://a.com/%41%42/x?q=%41#f", b"http://%61.com/p", b"http://a.com/../a", b"1.2.3.4 <t>",
        b"\\\\?\\UNC\\a", b"\\\\.\\x", b"c:\\a\\..\\..\\b.exe", b"0x41," * 501 + b"0x41 -bxor", b"300," * 501 + b"1",
    ]
    edge += [b"MZ" + b"\x00" * k for k in range(0x38, 0x48)] + [b"xx MZ" + b"A" * k for k in range(0x38, 0x48)]
    edge += [b"xx" + mkpe(0x200, 0x200, 0x400), b"xx" + mkpe(0x200, 0x10000, 0x400), mkpe(0x200, 0x300, 0x400) + b"tail", mkpe(0x3F0, 0x20, 0x400)]
    edge += [b"FromBase64String('QUJD'); FromBase64String('QUJDREVGR0hJSktM') -bxor 77", b"FromHexString('41424344454647484950'); FromHexString('4142434445464748495051525354555657585960') -bxor 9",
             b"http://0x7f.1", b"http://0x7f.1/", b"see http://[::1%2e]/x now", b"http://[::%31]/x", b"http://[%31::1]/x", b"http://@example.com/x", b"http://u:@example.com/x", b"see http://0177.1 x", b"      StrReverse(\"abc\") StrReverse('x')", b"aaaaaaaaaaaaaaaaaaaaaaaa reverse('abc')"]
    edge += [b'x = "ab" & "cd"', b"chr(65)", b"y=atob('QUJDRA==')", b'"a".replace("a","b")']
    out += [("edge", e) for e in edge]
    for _ in range(200 if tier == "quick" else 5000):
        n = rng.randint(0, 60)
        out.append(("random", bytes(rng.choice(INTERESTING + b"cmdpowershellhttp") for _ in range(n))))
    return out
