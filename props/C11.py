"""C11 - plain indicators are found at any offset with exact span and canonical value."""
from props import decoder_common as DC
from props import netoracles as NO

LEVEL = "proof"
LEVEL_TEXT = ("the parts of this property a contract on one call can express are proved: vba.get_closing_brace returns the least index at which the parenthesis balance "
              "returns to zero, or -1 (loop invariant over the recursive specification function bal); find_createobject reports exactly [match start, balancing "
              "parenthesis) with the text covered as value; find_executable_name / find_library / find_path report match spans with the text covered as value and "
              "the shipped type constant, and return exactly one node per match of their pattern (one-node-per-match: no match is filtered away); the languages of EXECUTABLE_RE, LIBRARY_RE, PATH_RE and CREATE_OBJECT_RE are pinned (pin/<CONSTANT>: equivalence of regular languages with the shape written in the contract). 'Is found at every offset, independent of neighbouring text' depends on the regex engine's search semantics and is a "
              "labelled bounded stand-in: each indicator kind is placed at offsets 0..3 between neutral delimiters, alone and next to unrelated indicators, and "
              "must be reported by the full scan with its exact absolute span, type and canonical value")
LEVEL_NOTE = "regex contract (a match is a member of L(P°)); search semantics (leftmost / greedy) and the false-positive heuristics are outside the contracts; pefile is trusted"
DESIGN_REF = "DESIGN.md 6 (C11)"
from props.engine_common import ENGINE_FUNCS, LOWER_VIEW, engine_bounded  # noqa: E402

# detection must not depend on unrelated neighbouring text: the engine's suppression bookkeeping (laminarity group) is part of this property
EXCLUDE_CLAUSES = ("E4",) + LOWER_VIEW
FUNCTIONS = ENGINE_FUNCS + ["multidecoder.decoders.vba.get_closing_brace", "multidecoder.decoders.vba.find_createobject", "multidecoder.decoders.filename.find_executable_name",
             "multidecoder.decoders.filename.find_library", "multidecoder.decoders.path.find_path"]
TRUSTED = [DC.NOT_UNDER_CONTRACT]


def abs_span(n):
    s, p = n.start, n.parent
    while p is not None and p.parent is not None:
        s += p.start
        p = p.parent
    return s, s + (n.end - n.start)


def bounded_placement(tier, seed):
    import random

    from multidecoder.multidecoder import Multidecoder
    from props import fuzz

    rng = random.Random(seed)
    md = Multidecoder()
    kinds = []
    for _ in range(12 if tier == "quick" else 200):
        ip = NO.gen_ip(rng)
        dom = NO.gen_domain(rng)
        while len(dom) < 7:
            dom = NO.gen_domain(rng)
        kinds += [("network.ip", ip, ip), ("network.domain", dom, dom), ("network.email", b"user.name@" + dom, b"user.name@" + dom),
                  ("network.url", b"http://" + dom + b"/path/x?q=1", b"http://" + dom + b"/path/x?q=1"), ("network.url", b"ftp://" + ip + b"/f", b"ftp://" + ip + b"/f")]
    names = [b"Setup.Exe", b"kernel32.dll", b"helper.dLL", b"tool.EXE", b"a_b1.exe"]
    kinds += [("executable.filename", nm, nm) for nm in names]
    kinds += [("path", b"/usr/local/bin.d", b"/usr/local/bin.d"), ("path", b"./abc/defg/hij.txt", b"./abc/defg/hij.txt"),
              # the documented shape lets the last component be any three or more word characters or dots: hidden files, dotted names
              ("path", b"/home/user/.bashrc", b"/home/user/.bashrc"), ("path", b"../repo/.git", b"../repo/.git"), ("path", b"./project/.env", b"./project/.env"),
              ("path", b"/var/log/a.b", b"/var/log/a.b"),
              ("windows.path", rb"c:\temp\test-file.txt", rb"c:\temp\test-file.txt"), ("windows.unc.path", rb"\\server1\share\dir\file.txt", rb"\\server1\share\dir\file.txt"),
              ("vba.function.createobject", b"CreateObject(a(b)c)", b"CreateObject(a(b)c)"), ("vba.function.createobject", b"createobject((x)(y))", b"createobject((x)(y))")]
    pe = fuzz.mkpe(0x200, 0x200, 0x400)
    kinds.append(("pe_file", pe, pe))
    # a PE whose section table is not in file order: the file ends at the LARGEST pointer + size, not at the last table entry's
    pe2 = fuzz.mkpe_sections([(0x400, 0x200), (0x200, 0x200)])
    kinds.append(("pe_file", pe2, pe2))
    neighbours = [b"", b"see http://early.example.com/some/long/path/index.html first; ", b"CreateObject(http://inner.example.org/x) then ", b"cmd.exe and other.example.net ; ",
                  # an unbalanced call earlier in the text (a comment, a truncated line) must not hide later indicators
                  b"' x = CreateObject(unfinished ; "]
    failures, n, distinct = [], 0, set()
    for typ, text, value in kinds:
        for off in (0, 1, 2, 3, 6, 7, 12):
            nbs = neighbours[: (2 if tier == "quick" and typ not in ("network.ip", "executable.filename", "network.domain") else 4)]
            if typ in ("vba.function.createobject", "network.ip") or tier != "quick":
                nbs = nbs + [neighbours[4]]
            for nb in nbs:
                for dup, follow in ((False, b""), (True, b""), (False, b" <t>"), (False, b" and more <w:t>"), (False, b" then ces. 1")):
                    if follow and typ not in ("network.ip", "network.domain", "executable.filename") and tier == "quick":
                        continue
                    pre = nb + b" " * off + (b"\x00" if typ == "pe_file" else b"")
                    # `follow`: unrelated text AFTER the indicator (the documented false-positive heuristics look at what PRECEDES it)
                    data = pre + text + (b" ; " + text if dup else b"") + follow + b" \n"
                    n += 1
                    distinct.add((typ, text))
                    want = [(len(pre), len(pre) + len(text))] + ([(len(pre) + len(text) + 3, len(pre) + 2 * len(text) + 3)] if dup else [])
                    try:
                        tree = fuzz.with_timeout(20, md.scan, data)
                    except Exception as e:  # noqa: BLE001
                        failures.append({"id": f"scan fails on placement of {typ}", "function": "multidecoder.multidecoder.Multidecoder.scan", "obligation": "bounded/C11", "case": {"place": data.hex(), "type": typ}, "observed": f"{type(e).__name__}"})
                        continue
                    found = {abs_span(x) for x in tree if x.type == typ and x.value == value}
                    missing = [w for w in want if w not in found]
                    if missing and sum(1 for f in failures if f["id"].startswith(f"{typ} ")) < 2:
                        failures.append({"id": f"{typ} not reported at {missing}", "function": "multidecoder.decoders", "obligation": "bounded/C11", "case": {"place": data.hex(), "type": typ, "value": value.hex(), "want": want},
                                         "observed": f"{data[:120]!r}: no {typ} node with value {value[:40]!r} at span(s) {missing}; {typ} nodes found at {sorted(abs_span(x) for x in tree if x.type == typ)}"})
    return {"evaluations": n, "distinct_nontrivial": len(distinct), "scope": "indicator instances x offsets 0..3, 6, 7, 12 x {alone, after an unrelated URL, after a CreateObject(URL) context, after file/domain names} x {once, twice, followed by unrelated markup}", "failures": failures,
            "samples": [{"place": (b" " + kinds[0][1] + b" \n").hex(), "type": kinds[0][0]}]}


BOUNDED = [bounded_placement, engine_bounded(("C05",))]


def replay(case):
    if "text" in case:
        from props import engine_rt

        return engine_rt.replay(case)
    if "place" in case:
        from multidecoder.multidecoder import Multidecoder

        data = bytes.fromhex(case["place"])
        tree = Multidecoder().scan(data)
        value = bytes.fromhex(case["value"])
        found = {abs_span(x) for x in tree if x.type == case["type"] and x.value == value}
        missing = [tuple(w) for w in case["want"] if tuple(w) not in found]
        return (not missing, f"missing at {missing}" if missing else "reported at every expected span")
    return DC.replay(case)
