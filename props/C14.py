"""C14 - character-escape decodings (XML refs, chr(), unescape(), UTF-16) are exact."""
from props import decoder_common as DC
from props import oracles as O

LEVEL = "proof"
LEVEL_TEXT = ("proved for every input: each find_unescape node covers the whole call and its value is unquote_to_bytes of exactly the quoted argument; each "
              "find_utf16 node's value is the UTF-8 encoding of the UTF-16 decoding of exactly the text covered, and the decode cannot raise on the "
              "language of UTF16_RE (even length, no surrogate code units); find_chr reports nothing for unencodable code points (handler proved to "
              "cover UnicodeEncodeError, chr() range proved from the pattern); unescape_xml's int() conversions cannot raise on the language of "
              "XML_ESCAPE_RE and every byte is in range (this obligation found the x[a-z0-9]{2} defect); types and labels are pinned")
LEVEL_NOTE = ("the element-wise value of an XML run (value[j] = j-th reference) rests on the trusted delimiter lemma A-delim for replace/split (validated at run time) "
              "and is checked by the bounded oracle; find_chr's value is pinned by the oracle only; find_unescape and find_utf16 return exactly one node per match of their pattern (proved: no match is filtered away); the languages of UNESCAPE_RE, CHR_RE, XML_ESCAPE_RE and UTF16_RE are pinned (pin/<CONSTANT>, anchors / look-arounds erased on both sides); WHICH substrings the regex engine matches "
              "('is found as one unit') is bounded")
DESIGN_REF = "DESIGN.md 6 (C14)"
FUNCTIONS = ["multidecoder.decoders.xml.unescape_xml", "multidecoder.decoders.xml.find_xml_hex", "multidecoder.decoders.chr.find_chr",
             "multidecoder.decoders.javascript.find_unescape", "multidecoder.decoders.codec.find_utf16"]
TRUSTED = ["A-delim: for data in (&#G;){5,} with G free of & # ; the pieces of data.replace(b'&#', b'').split(b';')[:-1] are exactly the G-words"]
BOUNDED = [O.bounded("C14", O.cases_C14)]


def replay(case):
    if "oracle" in case:
        return O.replay(case)
    return DC.replay(case)
