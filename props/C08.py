"""C08 - sub-results of a decoded node are exactly a scan of its decoded value."""
from props.engine_common import *  # noqa: F403

LEVEL = "proof"
LEVEL_TEXT = ("reads-frame proved: scan_node never loads start / end / parent / obfuscation of the node it is given (frame/read obligations; the only "
              "candidate, `offset -= node.start` in the pop loop, is shown unreachable for the scanned node), its locals are fresh per activation, "
              "and it writes only nodes it allocates or the children lists inside the scanned node's structure (frame/write, frame-fields, "
              "frame-children); with determinism of the decoders this makes the children a function of (type, value, depth, registry)")
LEVEL_NOTE = "the step from the frames to the relational statement is a non-interference meta-argument; it is also exercised by the bounded stand-in (stand-alone rescans); assumes A-det"
DESIGN_REF = "DESIGN.md 5.4"
FUNCTIONS = ENGINE_FUNCS
EXCLUDE_CLAUSES = CORE_ONLY
TRUSTED = ENGINE_TRUSTED
BOUNDED = [engine_bounded(("C08",))]
