"""Shared pieces of the decoder properties (C01, C03, C10-C16): function lists and run-time stand-ins."""
import re

SIMPLE_DECODERS = [
    "multidecoder.decoders.filename.find_executable_name",
    "multidecoder.decoders.filename.find_library",
    "multidecoder.decoders.path.find_path",
    "multidecoder.decoders.hex.find_hex",
    "multidecoder.decoders.javascript.find_unescape",
    "multidecoder.decoders.codec.find_utf16",
    "multidecoder.decoders.chr.find_chr",
    "multidecoder.decoders.xml.unescape_xml",
    "multidecoder.decoders.xml.find_xml_hex",
    "multidecoder.decoders.reverse.find_reverse",
    "multidecoder.decoders.vba.find_strreverse",
    "multidecoder.decoders.vba.find_createobject",
    "multidecoder.decoders.vba.get_closing_brace",
    "multidecoder.decoders.concat.find_concat",
    "multidecoder.decoders.replace.find_replace",
    "multidecoder.decoders.replace.find_powershell_replace",
    "multidecoder.decoders.replace.find_vba_replace",
    "multidecoder.decoders.replace.find_js_regex_replace",
    "multidecoder.decoders.base64.find_atob",
    "multidecoder.decoders.base64.find_Base64Decode",
    "multidecoder.decoders.base64.find_base64",
    "multidecoder.decoders.base64.find_FromBase64String",
    "multidecoder.decoders.hex.find_FromHexString",
    "multidecoder.xor_helper.get_xorkey",
    "multidecoder.keyword.find_keywords",
    "multidecoder.keyword.find_all",
    "multidecoder.keyword.is_mixed_case",
    "multidecoder.decoders.network.is_domain",
    "multidecoder.decoders.network.domain_is_false_positive",
    "multidecoder.decoders.network.find_domains",
    "multidecoder.decoders.network.find_emails",
    "multidecoder.decoders.network.find_ips",
    "multidecoder.decoders.network.is_url",
    "multidecoder.decoders.network.is_ip",
    "multidecoder.decoders.network.normalize_percent_encoding.normalize_percent",
    "multidecoder.decoders.network.normalize_percent_encoding",
    "multidecoder.decoders.network._is_printable",
    "multidecoder.decoders.network.parse_ip",
    "multidecoder.decoders.network.parse_ipv6",
    "multidecoder.decoders.network.parse_authority",
    "multidecoder.decoders.network.normalize_path",
    "multidecoder.decoders.network.parse_url",
    "multidecoder.decoders.network.find_urls",
    "multidecoder.decoders.path.find_windows_path",
    "multidecoder.decoders.pe_file.find_pe_files",
    "multidecoder.decoders.powershell.find_powershell_bytes",
]
SHELL_FUNCS = ["multidecoder.decoders.shell.strip_carets", "multidecoder.decoders.shell.deobfuscate_cmd"]

NOT_UNDER_CONTRACT = (
    "every decoder the default registry ships is under a deductive contract (DecoderOK); ASSUMED contracts of library code they sit on: pefile (pe_size), xortool, "
    "ipaddress / socket (is_ip, parse_ip, parse_ipv6 are verified against uninterpreted models of inet_aton / inet_pton / IPv4Address / IPv6Address), regex.sub with a callback (ASSUMED to replace every match m by callback(m) and keep the rest; the callback of normalize_percent_encoding is verified: never longer than the match, printable), ntpath (normpath, splitext: opaque, so the list indexes of "
    "find_windows_path into the normalised path are demoted to the run-time stand-in), str.isprintable (an uninterpreted predicate), struct.unpack_from, urlsplit"
)


def norm_err(e: str) -> str:
    e = re.sub(r"b'[^']*'|b\"[^\"]*\"", "<bytes>", e)
    tail = ""
    m = re.search(r"\{[^}]*\}$", e)
    if m:
        tail, e = m.group(0), e[: m.start()]
    e = re.sub(r"\[-?\d+,-?\d+\)", "[a,b)", e)
    e = re.sub(r"\d+", "N", e)
    return e[:110] + tail


def bounded_decoder_raises(tier, seed):
    """C01 half of DecoderOK: no decoder raises or fails to terminate on the sampled corpus."""
    r = bounded_decoder_ok(tier, seed)
    r["failures"] = [f for f in r["failures"] if " raised " in f["observed"] or "terminate" in f["observed"]]
    return r


def bounded_decoder_spans(tier, seed):
    """C03 half of DecoderOK: parentless in-bounds hits with well-formed children."""
    r = bounded_decoder_ok(tier, seed)
    r["failures"] = [f for f in r["failures"] if not (" raised " in f["observed"] or "terminate" in f["observed"])]
    return r


def bounded_decoder_ok(tier, seed):
    """Run-time DecoderOK(f) of EVERY shipped decoder on the sampled corpus (see props/fuzz.py)."""
    from props import fuzz

    corp = fuzz.corpus(tier, seed)
    decs = fuzz.all_decoders()
    n, failures, seen, distinct = 0, [], set(), set()
    for name, data in corp:
        distinct.add(data)
        for d in decs:
            n += 1
            for e in fuzz.decoder_ok_errors(d, data):
                key = f"{d.__module__.split('.')[-1]}.{d.__name__}: {norm_err(e)}"
                if key in seen:
                    continue
                seen.add(key)
                failures.append({"id": key, "function": f"{d.__module__}.{d.__name__}", "obligation": "bounded/DecoderOK", "case": {"decoder": f"{d.__module__}.{d.__name__}", "data": data.hex()}, "observed": e})
    return {"evaluations": n, "distinct_nontrivial": len(distinct), "scope": f"{len(corp)} inputs: sampled members of every real *_RE pattern embedded in neutral text, hand-picked edge cases, random byte strings; x {len(decs)} decoders",
            "failures": failures, "samples": [{"data": corp[k][1].hex(), "from": corp[k][0]} for k in (0, len(corp) // 2)]}


def bounded_scan_total(tier, seed):
    """C01 at the level of scan(): every input of the corpus, default registry, default depth and depths -1, 0, 1."""
    from props import fuzz

    corp = fuzz.corpus(tier, seed)
    n, failures, seen = 0, [], set()
    for name, data in corp:
        for depth in (None, 1) if tier == "quick" else (None, -1, 0, 1, 2):
            n += 1
            errs, _ = fuzz.scan_total_errors(data, depth)
            for e in errs:
                key = "scan: " + norm_err(e)
                if key in seen:
                    continue
                seen.add(key)
                failures.append({"id": key, "function": "multidecoder.multidecoder.Multidecoder.scan", "obligation": "bounded/total", "case": {"scan": data.hex(), "depth": depth}, "observed": e})
    return {"evaluations": n, "distinct_nontrivial": len({d for _, d in corp}), "scope": f"{len(corp)} inputs x depths, default registry; flatten, iteration, string_summary, tree_to_json on every result",
            "failures": failures, "samples": [{"scan": corp[1][1].hex()}]}


def bounded_known_limits(tier, seed):
    """Two inputs on which the unchanged tree is known not to be total (recorded findings): a key-guessing blow-up in the
    vendored xortool and CPython's recursion limit on very deep trees.  Kept as a stand-in so that the findings stay visible."""
    from props import fuzz

    cases = [
        ("xortool", (", ".join(str(i % 256) for i in range(512)) + " -bxor $k").encode()),
        ("deep", b"createobject(" * 1200 + b")" * 1200),
    ]
    failures = []
    for name, data in cases:
        from multidecoder.multidecoder import Multidecoder

        try:
            tree = fuzz.with_timeout(6, Multidecoder().scan, data)
            tree.flatten()
            list(tree)
        except fuzz.Timeout:
            failures.append({"id": f"limit-{name}: scan does not terminate within 6 s", "function": "multidecoder.multidecoder.Multidecoder.scan", "obligation": "bounded/total", "case": {"limit": name}, "observed": f"{name}: no result within 6 s"})
        except RecursionError:
            failures.append({"id": f"limit-{name}: RecursionError in a read-only view", "function": "multidecoder.node.Node.flatten", "obligation": "bounded/total", "case": {"limit": name}, "observed": f"{name}: RecursionError"})
    return {"evaluations": len(cases), "distinct_nontrivial": len(cases), "scope": "two hand-written inputs", "failures": failures, "samples": [{"limit": "xortool"}]}


def replay(case):
    from props import fuzz

    if "limit" in case:
        r = bounded_known_limits("quick", 0)
        bad = [f for f in r["failures"] if f["case"] == case]
        return (not bad, bad[0]["observed"] if bad else "completes")
    if "decoder" in case:
        import importlib

        mod, fn = case["decoder"].rsplit(".", 1)
        f = getattr(importlib.import_module(mod), fn)
        errs = fuzz.decoder_ok_errors(f, bytes.fromhex(case["data"]))
        return (not errs, "; ".join(errs) or "DecoderOK holds on this input")
    if "scan" in case:
        errs, _ = fuzz.scan_total_errors(bytes.fromhex(case["scan"]), case.get("depth"))
        return (not errs, "; ".join(errs) or "scan and all views complete")
    return True, "unknown case kind"


def bounded_scan_wf(tier, seed):
    """C03 on real scans: default registry over the corpus (plus inputs with repeated blobs), the result is a well-formed tree."""
    from props import fuzz
    from props.engine_rt import check_wf

    corp = fuzz.corpus(tier, seed)
    extra = []
    for name, data in corp[:: max(1, len(corp) // 150)]:
        extra.append(("twice", data + b" \n " + data))
    urls = [b"http://example.com/a?x=1#f http://other.org/b", b"http://example.com/page#section?x=1", b"see http://a.com/#/route?id=7 and c:\\temp\\..\\x\\file.exe",
            b"c:\\a\\.\\b\\..\\prog.exe \\\\host.com\\share\\..\\lib.dll", b"QUJDREVGR0hJSktMTU5PUFFSU1RVVldYWVo= QUJDREVGR0hJSktMTU5PUFFSU1RVVldYWVo="]
    extra += [("url", u) for u in urls]
    n, failures, seen = 0, [], set()
    for name, data in corp + extra:
        n += 1
        errs, tree = fuzz.scan_total_errors(data)
        if tree is None:
            continue
        for e in check_wf(tree, data):
            key = "scan-wf: " + norm_err(e)
            if key in seen:
                continue
            seen.add(key)
            failures.append({"id": key, "function": "multidecoder.multidecoder.Multidecoder.scan", "obligation": "bounded/C03-tree", "case": {"scan_wf": data.hex()}, "observed": e})
    return {"evaluations": n, "distinct_nontrivial": len({d for _, d in corp + extra}), "scope": "default registry on the corpus, on self-concatenations of a sample of it and on hand-written URL / path inputs",
            "failures": failures, "samples": [{"scan_wf": extra[0][1].hex()}]}


_replay0 = replay


def replay(case):  # noqa: F811
    if "scan_wf" in case:
        from props import fuzz
        from props.engine_rt import check_wf

        data = bytes.fromhex(case["scan_wf"])
        errs, tree = fuzz.scan_total_errors(data)
        if tree is None:
            return False, "; ".join(errs)
        e = check_wf(tree, data)
        return (not e, "; ".join(e) or "well-formed tree")
    return _replay0(case)
