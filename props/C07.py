"""C07 - the depth limit bounds recursion and only ever truncates the tree."""
from props.engine_common import *  # noqa: F403

LEVEL = "proof"
LEVEL_TEXT = ("proved: registry entries are invoked only with depth_limit > 0 (registry-call/C07-only-with-budget), both recursive call sites pass "
              "exactly depth_limit - 1 (callsite/...), the recursion measure depth_limit decreases and is bounded below (dec/rec), the "
              "context-pop loop terminates (dec/L3), and depth_limit <= 0 returns the node with the heap unchanged (post/no-budget-no-change)")
LEVEL_NOTE = ("the relational half (tree(k) is tree(k+1) truncated) is a bounded stand-in only: real engine for k in -1..4 on enumerated configurations "
              "including re-decodable values; assumes DecoderOK (termination of the decoders themselves)")
DESIGN_REF = "DESIGN.md 5.4"
FUNCTIONS = ENGINE_FUNCS
EXCLUDE_CLAUSES = CORE_ONLY
TRUSTED = ENGINE_TRUSTED
BOUNDED = [engine_bounded(("C07",))]
