"""C16 - shell commands are delimited and de-escaped by cmd.exe rules."""
from props import decoder_common as DC

LEVEL = "proof"
LEVEL_TEXT = ("shell.strip_carets is proved equal, for every command text, to the cmd.exe reference state machine written from the property text (caret drops and "
              "keeps the next byte literally, caret CR LF is a continuation, trailing caret dropped, carets literal inside quotes, CR ends a quoted region); "
              "deobfuscate_cmd labels exactly when the text changed; find_cmd_strings is proved to end the span at the first unbalanced closing "
              "parenthesis of the matched text (loop invariant over the specification function first_neg, with the inductive lemma first-neg-range)")
LEVEL_NOTE = ("the value of a cmd node after the stray-quote repair, and all of find_powershell_strings (look-back delimiting, encoded-command rewrite), are covered "
              "by bounded stand-ins only; z3 recursive functions over strings; regex contract for CMD_RE")
DESIGN_REF = "DESIGN.md 6 (C16)"
FUNCTIONS = ["multidecoder.decoders.shell.strip_carets", "multidecoder.decoders.shell.deobfuscate_cmd", "multidecoder.decoders.shell.find_cmd_strings"]
DEMOTED = {r"find_cmd_strings/safe/IndexError@L\d+:list index": "split[0] needs `the de-escaped match contains a non-blank byte` (a fact about caret_from over L(CMD_RE)) which z3 cannot derive; covered by the run-time stand-in"}
TRUSTED = ["bytes.split() without separator: pieces are the maximal blank-free runs", DC.NOT_UNDER_CONTRACT]


def cmd_reference(data, start, match_text):
    """(end, value?) per the property: ends at the first unbalanced ')' of the matched text."""
    bal = 0
    for i, c in enumerate(match_text):
        if c == 41:
            bal -= 1
        elif c == 40:
            bal += 1
        if bal < 0:
            return start + i
    return start + len(match_text)


def bounded_cmd(tier, seed):
    """find_cmd_strings / strip_carets against the executable references on generated command texts."""
    import itertools
    import random

    import regex

    from contracts.shell import caret_from
    from multidecoder.decoders import shell

    rng = random.Random(seed)
    failures, n, distinct = [], 0, set()
    alphabet = [b"^", b'"', b"\r", b"\n", b"a", b"(", b")", b" "]
    maxlen = 5 if tier == "quick" else 7
    for L in range(0, maxlen + 1):
        for tup in itertools.product(alphabet, repeat=L):
            cmd = b"".join(tup)
            n += 1
            distinct.add(cmd)
            try:
                got = shell.strip_carets(cmd)
            except Exception as e:  # noqa: BLE001
                got = f"{type(e).__name__}: {e}"
            want = caret_from(cmd, 0, False)
            if got != want and len(failures) < 3:
                failures.append({"id": f"strip_carets:{cmd!r}", "function": "multidecoder.decoders.shell.strip_carets", "obligation": "post/cmd-exe-rules",
                                 "case": {"strip_carets": cmd.hex()}, "observed": f"strip_carets({cmd!r}) = {got!r}, cmd.exe reference = {want!r}"})
    quoted = [b'"d:\\tools\\cmd" /c whoami', b"'run cmd.exe' /c dir", b'"cmd" /c x', b'"C:\\WINDOWS\\system32\\cmd.exe" /c "a^b"']
    for data in quoted:
        n += 1
        for h in shell.find_cmd_strings(data):
            text = data[h.start : h.end]
            want_label = "unescape.shell.carets" if caret_from(text, 0, False) != text else ""
            if h.obfuscation != want_label and len(failures) < 6:
                failures.append({"id": "find_cmd_strings: label is not 'caret-unescaped iff de-escaping changed the span'", "function": "multidecoder.decoders.shell.find_cmd_strings", "obligation": "each/label-iff-de-escaping-changed-the-span",
                                 "case": {"find_cmd": data.hex(), "label": True}, "observed": f"{data!r}: label {h.obfuscation!r}, expected {want_label!r}"})
    tails = [b" /c a) bcd efg", b" /c (a) b) c", b" /c ((x)", b" a^)b) c", b" /c \"a)\" b", b" x)", b")", b" (a))(b) z", b" /c dir", b" /c a\x00b) c"]
    for t in tails + [bytes(rng.choice(b"ab() ^\"") for _ in range(rng.randint(0, 12))) for _ in range(300 if tier == "quick" else 5000)]:
        data = b"x cmd" + t
        n += 1
        distinct.add(data)
        try:
            hits = shell.find_cmd_strings(data)
        except Exception as e:  # noqa: BLE001
            failures.append({"id": f"find_cmd_strings raises {type(e).__name__}", "function": "multidecoder.decoders.shell.find_cmd_strings", "obligation": "safe", "case": {"find_cmd": data.hex()}, "observed": f"{type(e).__name__}: {e}"})
            continue
        ms = list(regex.finditer(shell.CMD_RE, data))
        for h, m in zip(hits, ms):
            want_end = cmd_reference(data, m.start(), m.group())
            text = data[h.start : h.end]
            want_label = "unescape.shell.carets" if caret_from(text, 0, False) != text else ""
            if h.obfuscation != want_label and len(failures) < 6:
                failures.append({"id": "find_cmd_strings: label is not 'caret-unescaped iff de-escaping changed the span'", "function": "multidecoder.decoders.shell.find_cmd_strings", "obligation": "each/label-iff-de-escaping-changed-the-span",
                                 "case": {"find_cmd": data.hex(), "label": True}, "observed": f"{data!r}: label {h.obfuscation!r}, expected {want_label!r}"})
            if (h.start, h.end) != (m.start(), want_end) and len(failures) < 6:
                failures.append({"id": "find_cmd_strings: span does not end at the first unbalanced )", "function": "multidecoder.decoders.shell.find_cmd_strings", "obligation": "inv/L2/not-past-the-cut",
                                 "case": {"find_cmd": data.hex()}, "observed": f"{data!r}: span [{h.start},{h.end}) but the first unbalanced ')' ends it at {want_end}; value {h.value!r}"})
    return {"evaluations": n, "distinct_nontrivial": len(distinct), "scope": f"strip_carets: all strings over {{^ \" CR LF a ( ) space}} up to length {maxlen}; find_cmd_strings: hand-written and random parenthesised tails",
            "failures": failures, "samples": [{"strip_carets": b'a^\r\nb"^"'.hex()}]}


def bounded_encoded_command(tier, seed):
    """PowerShell invocations made of value-less switches followed by an encoded-command switch (any prefix of
    -encodedcommand): the value is the invocation with that switch and its argument replaced by -Command and the UTF-16
    decoding of the base64 text (a byte-order mark, if any, selects the byte order and is consumed)."""
    import base64
    import codecs
    import random

    from multidecoder.decoders import shell

    rng = random.Random(seed)
    failures, n, distinct = [], 0, set()
    texts = ["echo bee", "Write-Host 1", "ab", "\u00e9t\u00e9 x", "iex (x)"]
    encs = [("utf-16-le", b""), ("utf-16-le", codecs.BOM_UTF16_LE), ("utf-16-be", codecs.BOM_UTF16_BE)]
    full = "encodedcommand"
    for text in texts:
        for codec, bom in encs:
            for k in (1, 2, 3, 7, len(full)):
                for sw in ([], ["-nop"], ["-NoP", "-noni"]):
                    raw = bom + text.encode(codec)
                    b64 = base64.b64encode(raw)
                    if len(b64) < 4:
                        continue
                    inv = b" ".join([b"powershell"] + [s_.encode() for s_ in sw] + [b"-" + full[:k].encode(), b64])
                    data = b"x = " + inv
                    n += 1
                    distinct.add(data)
                    want = b" ".join([b"powershell"] + [s_.encode() for s_ in sw]) + b" -Command " + raw.decode("utf-16", "ignore").encode()
                    try:
                        hits = shell.find_powershell_strings(data)
                    except Exception as e:  # noqa: BLE001
                        hits = []
                        want = f"no exception ({type(e).__name__}: {e})"
                    got = [h.value for h in hits if h.obfuscation == "powershell.base64"]
                    if got != [want] and len(failures) < 4:
                        failures.append({"id": f"encoded-command value ({codec}, bom={bool(bom)})", "function": "multidecoder.decoders.shell.find_powershell_strings", "obligation": "bounded/encoded-command",
                                         "case": {"encoded_command": data.hex(), "want": want.hex() if isinstance(want, bytes) else str(want)}, "observed": f"{data!r}: values {got!r}, expected [{want!r}]"})
    return {"evaluations": n, "distinct_nontrivial": len(distinct), "scope": "5 texts x {no BOM, LE BOM, BE BOM} x 5 switch spellings x 3 switch prefixes", "failures": failures, "samples": [{"encoded_command": b"x = powershell -e ZQBjAGgAbwA=".hex()}]}


def bounded_powershell_context(tier, seed):
    """Non-encoded PowerShell commands: what delimits the command is the quote / FOR-loop context that PRECEDES the token, so the reported value does not
    depend on whether the token sits at offset 0 or behind neutral text, nor on quotes that only FOLLOW it."""
    import random

    from multidecoder.decoders.shell import find_powershell_strings

    rng = random.Random(seed)
    failures, n = [], 0
    tails = [b' -nop -c "Get-Date" ; exit', b" -nop -w hidden iex('a') ; b", b" -file run.ps1", b' Write-Host "x" \'y\'', b" -c ls ')", b' "a" "b"']
    tokens = [b"powershell", b"pwsh", b"PowerShell.exe", b"p^owershell"]
    for tok in tokens:
        for tail in tails:
            cmd = tok + tail
            vals = []
            for pre in (b"", b"\n", b"x;", b"   "):
                n += 1
                try:
                    hits = find_powershell_strings(pre + cmd)
                except Exception as e:  # noqa: BLE001
                    failures.append({"id": f"find_powershell_strings raises {type(e).__name__}", "function": "multidecoder.decoders.shell.find_powershell_strings", "obligation": "safe", "case": {"ps": (pre + cmd).hex()}, "observed": f"{type(e).__name__}: {e}"})
                    continue
                vals.append((pre, [h.value for h in hits if h.start == len(pre)]))
            if len({tuple(v) for _, v in vals}) > 1 and len(failures) < 3:
                failures.append({"id": f"powershell value depends on the offset: {cmd[:30]!r}", "function": "multidecoder.decoders.shell.find_powershell_strings", "obligation": "post", "case": {"ps": cmd.hex()},
                                 "observed": f"{cmd!r}: values by prefix {[(p_, v) for p_, v in vals]!r}"})
    return {"evaluations": n, "distinct_nontrivial": len(tokens) * len(tails), "scope": "4 token spellings x 6 tails with quotes after the token x {offset 0, after a newline, after `x;`, after blanks}", "failures": failures,
            "samples": [{"ps": (tokens[0] + tails[0]).hex()}]}


BOUNDED = [bounded_cmd, bounded_encoded_command, bounded_powershell_context]


def replay(case):
    from contracts.shell import caret_from
    from multidecoder.decoders import shell

    if "strip_carets" in case:
        cmd = bytes.fromhex(case["strip_carets"])
        try:
            got = shell.strip_carets(cmd)
        except Exception as e:  # noqa: BLE001
            return False, f"{type(e).__name__}: {e}"
        want = caret_from(cmd, 0, False)
        return got == want, f"strip_carets({cmd!r}) = {got!r}, reference {want!r}"
    if "encoded_command" in case:
        data = bytes.fromhex(case["encoded_command"])
        got = [h.value for h in shell.find_powershell_strings(data) if h.obfuscation == "powershell.base64"]
        want = bytes.fromhex(case["want"])
        return got == [want], f"values {got!r}, expected [{want!r}]"
    if "find_cmd" in case:
        r = bounded_cmd("quick", 0)
        data = bytes.fromhex(case["find_cmd"])
        import regex

        hits = shell.find_cmd_strings(data)
        for h, m in zip(hits, regex.finditer(shell.CMD_RE, data)):
            text = data[h.start : h.end]
            if case.get("label") and h.obfuscation != ("unescape.shell.carets" if caret_from(text, 0, False) != text else ""):
                return False, f"label {h.obfuscation!r} for span text {text!r}"
            we = cmd_reference(data, m.start(), m.group())
            if h.end != we:
                return False, f"span ends at {h.end}, the first unbalanced ')' is at {we}"
        return True, "span ends at the first unbalanced )"
    return DC.replay(case)
