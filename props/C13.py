"""C13 - base64, hexadecimal and XOR decodings are bit-exact."""
from props import decoder_common as DC
from props import oracles as O

LEVEL = "proof"
LEVEL_TEXT = ("soundness half proved for the producers under contract: every node of find_hex has value unhexlify(text covered) and label decoded.hexadecimal; "
              "find_atob / find_Base64Decode nodes cover the whole call and their value is a2b_base64 of exactly the quoted argument (regex linear "
              "decomposition); apply_xor_key adds at most one child, spanning the whole value, only for a key in 0..255 (bytes() range obligation), with "
              "parent link and fresh identity; type and label constants of find_base64 are pinned; converse half for bare hexadecimal runs, relative to the regex contract: "
              "find_hex returns exactly one node per match of HEX_RE (`one-node-per-match`: no match is filtered away - a filter is accepted only when it is proved true of every match), and the languages of HEX_RE ('ten or more same-case hex pairs'), BASE64_RE, ATOB_RE, BASE64DECODE_RE, FROMB64STRING_RE and FROMHEXSTRING_RE are pinned (pin/<CONSTANT>: equivalence of regular languages with the shape written in the contract)")
LEVEL_NOTE = ("code and specification apply the same trusted primitive (binascii) - the obligations are about the glue (right group, right span, right filter); "
              "WHICH runs the regex engine matches (leftmost, greedy, the 10-pair minimum) is the engine's business and is covered by the bounded value oracle only; "
              "the completeness half ('is decoded as one unit') of the other producers and find_FromBase64String / find_FromHexString / find_base64's acceptance rules are "
              "covered by the bounded value oracle only; xortool key guessing (floats) is not covered")
DESIGN_REF = "DESIGN.md 6 (C13)"
FUNCTIONS = ["multidecoder.decoders.hex.find_hex", "multidecoder.decoders.base64.find_atob", "multidecoder.decoders.base64.find_Base64Decode",
             "multidecoder.decoders.base64.find_base64", "multidecoder.xor_helper.apply_xor_key", "multidecoder.xor_helper.get_xorkey",
             "multidecoder.decoders.base64.find_FromBase64String", "multidecoder.decoders.hex.find_FromHexString", "multidecoder.decoders.base64.pad_base64", "multidecoder.decoders.powershell.find_powershell_bytes"]
TRUSTED = [DC.NOT_UNDER_CONTRACT]
BOUNDED = [O.bounded("C13", O.cases_C13)]


def bounded_xor(tier, seed):
    """FromBase64String(..) / FromHexString(..) followed by -bxor K: the child equals the parent's bytes XORed with K (K <= 255), no child otherwise."""
    import base64
    import binascii
    import random

    from multidecoder.decoders.base64 import find_FromBase64String
    from multidecoder.decoders.hex import find_FromHexString

    rng = random.Random(seed)
    failures, n = [], 0
    for key in list(range(0, 260, 7)) + [255, 256, 300, 999]:
        p = bytes(rng.randrange(256) for _ in range(rng.randint(10, 20)))
        for fn, text in ((find_FromBase64String, b"FromBase64String('" + base64.b64encode(p) + b"')"), (find_FromHexString, b"FromHexString('" + binascii.hexlify(p) + b"')")):
            data = b"$x = " + text + b" -bxor " + str(key).encode()
            n += 1
            try:
                hits = fn(data)
            except Exception as e:  # noqa: BLE001
                failures.append({"id": f"xor raises {type(e).__name__}", "function": "multidecoder.xor_helper.apply_xor_key", "obligation": "safe", "case": {"xor": data.hex()}, "observed": f"{type(e).__name__}: {e}"})
                continue
            ok = len(hits) == 1 and hits[0].value == p
            kids = hits[0].children if hits else []
            if 1 <= key <= 255:
                ok = ok and len(kids) == 1 and kids[0].value == bytes(b ^ key for b in p) and kids[0].obfuscation == f"cipher.xor{key}" and (kids[0].start, kids[0].end) == (0, len(p)) and kids[0].parent is hits[0]
            else:
                ok = ok and len(kids) == 0
            if not ok and len(failures) < 4:
                failures.append({"id": f"xor key {key}", "function": "multidecoder.xor_helper.apply_xor_key", "obligation": "post", "case": {"xor": data.hex()}, "observed": f"{data!r}: {[(h.value, [(c.value, c.obfuscation) for c in h.children]) for h in hits]!r}"})
    # several calls in one text: each node gets its OWN payload XORed
    for fn, mk in ((find_FromBase64String, lambda p_: b"FromBase64String('" + base64.b64encode(p_) + b"')"), (find_FromHexString, lambda p_: b"FromHexString('" + binascii.hexlify(p_) + b"')")):
        ps = [bytes(rng.randrange(256) for _ in range(L)) for L in (10, 14, 23)]
        data = b"; ".join(mk(p_) for p_ in ps) + b" -bxor 77"
        n += 1
        try:
            hits = fn(data)
        except Exception as e:  # noqa: BLE001
            hits = []
            failures.append({"id": f"xor raises {type(e).__name__}", "function": "multidecoder.xor_helper.apply_xor_key", "obligation": "safe", "case": {"xor": data.hex()}, "observed": f"{type(e).__name__}: {e}"})
        ok = [h.value for h in hits] == ps and all(len(h.children) == 1 and h.children[0].value == bytes(b ^ 77 for b in h.value) and (h.children[0].start, h.children[0].end) == (0, len(h.value)) for h in hits)
        if not ok and len(failures) < 5:
            failures.append({"id": "xor children of several calls in one text", "function": fn.__module__ + "." + fn.__name__, "obligation": "post", "case": {"xor": data.hex()},
                             "observed": f"{[(len(h.value), [(c.start, c.end, len(c.value)) for c in h.children]) for h in hits]!r} for payload lengths {[len(p_) for p_ in ps]}"})
    return {"evaluations": n, "distinct_nontrivial": n, "scope": "keys 0..259 step 7, 255, 256, 300, 999 x two call forms; three calls of different payload lengths sharing one key", "failures": failures, "samples": [{"key": 65}]}


BOUNDED.append(bounded_xor)


def bounded_bytes_key(tier, seed):
    """PowerShell byte arrays (> 500 elements) next to an explicit single-byte -bxor key: every array node carries ITS OWN bytes XORed with the key."""
    import random

    from multidecoder.decoders.powershell import find_powershell_bytes

    rng = random.Random(seed)
    failures, n = [], 0
    for narr in (1, 2, 3):
        for key in (1, 35, 255):
            arrays = [bytes(rng.randrange(256) for _ in range(rng.randint(501, 560))) for _ in range(narr)]
            data = b"\n".join(b"$a%d = " % i + b",".join(str(b).encode() for b in arr) for i, arr in enumerate(arrays)) + b"\n$x -bxor %d" % key
            n += 1
            try:
                hits = find_powershell_bytes(data)
            except Exception as e:  # noqa: BLE001
                failures.append({"id": f"find_powershell_bytes raises {type(e).__name__}", "function": "multidecoder.decoders.powershell.find_powershell_bytes", "obligation": "safe", "case": {"psbytes": data.hex()}, "observed": f"{type(e).__name__}: {e}"})
                continue
            ok = [h.value for h in hits] == arrays and all(len(h.children) == 1 and h.children[0].value == bytes(b ^ key for b in h.value) and (h.children[0].start, h.children[0].end) == (0, len(h.value))
                                                             and h.children[0].parent is h for h in hits)
            if not ok and len(failures) < 3:
                failures.append({"id": f"byte arrays with key {key}", "function": "multidecoder.decoders.powershell.find_powershell_bytes", "obligation": "post", "case": {"psbytes": data.hex()},
                                 "observed": f"{narr} arrays of lengths {[len(a) for a in arrays]}, key {key}: nodes {[(len(h.value), [(c.start, c.end, len(c.value), c.value == bytes(b ^ key for b in h.value)) for c in h.children]) for h in hits]!r}"})
    return {"evaluations": n, "distinct_nontrivial": n, "scope": "1-3 byte arrays of 501-560 elements in one text x explicit keys 1, 35, 255", "failures": failures, "samples": [{"arrays": 2, "key": 35}]}


BOUNDED.append(bounded_bytes_key)


def bounded_multibyte_xor(tier, seed):
    """Key-guessing form (a byte array of > 500 elements followed by a bare -bxor): a reported cipher.multibyte_xor child equals the
    parent's bytes XORed with SOME repeating key, and in particular has the parent's length."""
    import random

    from multidecoder.decoders.powershell import find_powershell_bytes

    rng = random.Random(seed)
    failures, n = [], 0
    words = [b"the", b"quick", b"brown", b"fox", b"jumps", b"over", b"lazy", b"dog", b"and", b"runs", b"away", b"from", b"http://example.com/a"]
    for length, key in ((601, b"ab"), (800, b"xyz"), (703, b"K"), (650, b"\x10\x20\x30\x41")):
        plain = b""
        while len(plain) < length:
            plain += rng.choice(words) + b" "
        plain = plain[:length]
        enc = bytes(c ^ key[i % len(key)] for i, c in enumerate(plain))
        data = b"$b = " + b", ".join(b"0x%02x" % c for c in enc) + b" -bxor $k"
        n += 1
        try:
            hits = find_powershell_bytes(data)
        except Exception as e:  # noqa: BLE001
            failures.append({"id": f"find_powershell_bytes raises {type(e).__name__}", "function": "multidecoder.decoders.powershell.find_powershell_bytes", "obligation": "safe", "case": {"mbxor": [length, key.hex()]}, "observed": f"{type(e).__name__}: {e}"})
            continue
        for h in hits:
            for c in h.children:
                if c.obfuscation != "cipher.multibyte_xor":
                    continue
                ok = len(c.value) == len(h.value) and (c.start, c.end) == (0, len(h.value))
                if ok:
                    ks = bytes(a ^ b for a, b in zip(h.value, c.value))
                    ok = any(all(ks[i] == ks[i % L] for i in range(len(ks))) for L in range(1, 33))
                if not ok and len(failures) < 3:
                    failures.append({"id": f"multibyte xor child (len {length}, key {key!r})", "function": "multidecoder.xortool.dexor", "obligation": "bounded/xor", "case": {"mbxor": [length, key.hex()]},
                                     "observed": f"child of length {len(c.value)} under a parent of length {len(h.value)} is not parent XOR a repeating key"})
    return {"evaluations": n, "distinct_nontrivial": n, "scope": "4 plaintexts (601-800 bytes) x keys of length 1-4", "failures": failures, "samples": [{"mbxor": [601, "6162"]}]}


BOUNDED.append(bounded_multibyte_xor)


def replay(case):
    if "oracle" in case:
        return O.replay(case)
    if "mbxor" in case:
        r = bounded_multibyte_xor("quick", 0)
        return (not r["failures"], r["failures"][0]["observed"] if r["failures"] else "multibyte xor children are exact")
    if "xor" in case:
        r = bounded_xor("quick", 0)
        return (not r["failures"], r["failures"][0]["observed"] if r["failures"] else "xor children exact")
    return DC.replay(case)
