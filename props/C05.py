"""C05 - sibling results are laminar; raw hits inside a decoded region are suppressed."""
from props.engine_common import *  # noqa: F403

LEVEL = "proof"
LEVEL_TEXT = ("proved for every registry meeting DecoderOK and every nesting depth: for each hit attached by the scan, the previous child of its "
              "parent starts no later and ends strictly earlier (E3-sibling-starts / E3-sibling-ends), hits are nested only under undecoded "
              "contexts, and `decode_end` is the ABSOLUTE end of the last decoded hit (invariant J5-decode-end with ghost DABS)")
LEVEL_NOTE = "assumes DecoderOK and sorted(); bounded stand-in (real engine vs the clause on enumerated configurations) runs next to the proof"
DESIGN_REF = "DESIGN.md 5.1 E3, 5.2 J5"
FUNCTIONS = ENGINE_FUNCS
EXCLUDE_CLAUSES = ("E4",) + LOWER_VIEW
TRUSTED = ENGINE_TRUSTED
BOUNDED = [engine_bounded(("C05",))]
