"""C15 - string concatenation, reversal and replacement are evaluated exactly."""
from props import decoder_common as DC
from props import oracles as O

LEVEL = "proof"
LEVEL_TEXT = ("DecoderOK, type and label constants and span = whole expression are proved for find_concat, find_reverse, find_strreverse and the four replace "
              "dialects (regex contract + comprehension schema); for find_reverse and find_strreverse the VALUE is proved too: it is the reversal of the literal's content "
              "(group 1 of the pattern without its two quotes; a clause over the comprehension body's `match`); the evaluated value of concatenation and replace-all is "
              "checked by the bounded value oracle over generated literals, separators and quoting styles")
LEVEL_NOTE = ("value exactness of concat / replace is bounded only: it needs the transfer of L(CONCAT_RE) through re.sub, which is not discharged; bytes reversal is the uninterpreted REV shared by "
              "code (s[-2:0:-1]) and specification; bytes.replace is the specification's own 'every occurrence' primitive; the languages of STRING_RE, CONCAT_SPACER_RE, CONCAT_RE, REVERSE_RE and STRREVERSE_RE are pinned "
              "(pin/<CONSTANT>, proved) - a pin says nothing about WHICH alternative the engine prefers (ordered alternation), which the value oracle covers")
DESIGN_REF = "DESIGN.md 6 (C15)"
FUNCTIONS = ["multidecoder.decoders.concat.find_concat", "multidecoder.decoders.reverse.find_reverse", "multidecoder.decoders.vba.find_strreverse",
             "multidecoder.decoders.replace.find_replace", "multidecoder.decoders.replace.find_powershell_replace",
             "multidecoder.decoders.replace.find_vba_replace", "multidecoder.decoders.replace.find_js_regex_replace"]
TRUSTED = []
BOUNDED = [O.bounded("C15", O.cases_C15)]


def replay(case):
    if "oracle" in case:
        return O.replay(case)
    return DC.replay(case)
