"""C04 - context preservation: nesting never changes which bytes a result denotes."""
from props.engine_common import *  # noqa: F403

LEVEL = "proof"
LEVEL_TEXT = ("proved for every registry meeting DecoderOK: when a hit reported at [a,b) is attached, the ghost absolute start of its parent context "
              "(the sum of the starts of the enclosing undecoded contexts, invariant J3) plus its start is a, its length is b-a, and the case-folded "
              "original slice equals the case-folded text[a:b] of the scanned text (transition clauses E2-abs-start / E2-length / "
              "E2-original-is-the-text-covered over the core invariant J0-J4 and the case-folding view J6)")
LEVEL_NOTE = ("J6 uses three axioms about bytes as ground instances (lower commutes with slicing, slice of a slice, full slice) - they are listed as trusted "
              "lemmas in the evidence; assumes DecoderOK and sorted()")
import os  # noqa: E402

os.environ.setdefault("VERIF_TIMEOUT", "45")  # the case-folding clauses need several instantiation rounds (5-15 s each)
DESIGN_REF = "DESIGN.md 5.1 E2"
FUNCTIONS = ENGINE_FUNCS
EXCLUDE_CLAUSES = ("J5", "E3", "E4", "DABS")
TRUSTED = ENGINE_TRUSTED
BOUNDED = [engine_bounded(("C04",))]
