"""C04 - context preservation: nesting never changes which bytes a result denotes."""
from props.engine_common import *  # noqa: F403

LEVEL = "proof"
LEVEL_TEXT = ("proved for every registry meeting DecoderOK: when a hit reported at [a,b) is attached, the ghost absolute start of its parent context "
              "(the sum of the starts of the enclosing undecoded contexts, invariant J3) plus its start is a, and its length is b-a "
              "(transition clauses E2-abs-start / E2-length over the core invariant J0-J4)")
LEVEL_NOTE = ("the case-insensitive equality of the original slice with text[a:b] is covered by the bounded stand-in only (the lower/slice lemma J6 of "
              "DESIGN.md 5.2 is not yet discharged); assumes DecoderOK and sorted()")
DESIGN_REF = "DESIGN.md 5.1 E2"
FUNCTIONS = ENGINE_FUNCS
EXCLUDE_CLAUSES = CORE_ONLY
TRUSTED = ENGINE_TRUSTED
BOUNDED = [engine_bounded(("C04",))]
