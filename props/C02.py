"""C02 - layered obfuscation round-trips (not claimed)."""
NOT_APPLICABLE = ("no contract on a single call expresses or decides it: the statement quantifies over payloads x encoder stacks x embeddings and asserts what the WHOLE registry (30 decoders, "
                  "127 keyword searchers) finds, which depends on the regex engine's search semantics (which substring is matched first) and on non-interference of every "
                  "other searcher on arbitrary encoder output; the deductively reachable ingredients are proved elsewhere - engine conformance and locality (C06, C08), "
                  "flatten substitution (C19), per-decoder value contracts (C13-C16) - and a bounded stack-of-encoders stand-in was not built in this round")
