"""C17 - keyword search reports exactly the delimited, case-insensitive occurrences."""
LEVEL = "proof"
LEVEL_TEXT = ("keyword.find_all is proved, for all data and keywords and all iterations, to return exactly the sub-sequence of the "
              "left-to-right occurrence chain whose neighbouring bytes are not alphanumeric (loop invariant with ghost chain/cnt/idx witnesses)")
LEVEL_NOTE = "bytes.find is an uninterpreted function shared by code and specification (validated at run time); isalnum / slices are opaque symbols"
DESIGN_REF = "DESIGN.md section 6 (C17)"
FUNCTIONS = ["multidecoder.keyword.find_all"]
