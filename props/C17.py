"""C17 - keyword search reports exactly the delimited, case-insensitive occurrences."""
LEVEL = "proof"
LEVEL_TEXT = ("keyword.find_all is proved, for all data and keywords and all iterations, to return exactly the sub-sequence of the "
              "left-to-right occurrence chain whose neighbouring bytes are not alphanumeric (loop invariant with ghost chain/cnt/idx witnesses), every "
              "reported start being an in-bounds, delimited occurrence; is_mixed_case is proved equivalent to 'neither all upper nor all lower and some "
              "letter differs in case from the listed keyword' (Latin-1 str semantics of chr().isupper() encoded from the running CPython); every node of "
              "find_keywords is proved to carry the list name as type, a listed keyword as value, a delimited case-insensitive occurrence as span and a "
              "MixedCase-or-empty label (nested comprehension, element-wise)")
LEVEL_NOTE = ("bytes.find is an uninterpreted function shared by code and specification; isalnum / slices are opaque symbols inside quantified clauses; completeness of "
              "find_keywords (every delimited occurrence of every keyword yields a node, in order) and the exact label are covered by the exhaustive bounded stand-in")
DESIGN_REF = "DESIGN.md section 6 (C17)"
FUNCTIONS = ["multidecoder.keyword.find_all", "multidecoder.keyword.find_keywords", "multidecoder.keyword.is_mixed_case"]
BOUNDED_NOTE = "bounded stand-in: find_all / find_keywords / registry-built searchers against an executable reference, exhaustively over a small alphabet"


def ref_find_all(keyword: bytes, data: bytes):
    """Reference from the property text: leftmost non-overlapping occurrences, kept when delimited."""
    out, n, pos = [], len(keyword), 0
    if not keyword:
        return out

    def alnum(b):
        return (48 <= b <= 57) or (65 <= b <= 90) or (97 <= b <= 122)

    while True:
        p = data.find(keyword, pos)
        if p < 0:
            return out
        if (p == 0 or not alnum(data[p - 1])) and (p + n == len(data) or not alnum(data[p + n])):
            out.append(p)
        pos = p + n


def ref_mixed(keyword: bytes, raw: bytes) -> bool:
    if raw.isupper() or raw.islower():
        return False
    return any((chr(v).isupper() and not chr(d).isupper()) or (chr(v).islower() and not chr(d).islower()) for v, d in zip(raw, keyword))


def bounded_keyword(tier, seed):
    import itertools
    import os
    import tempfile

    from multidecoder import keyword as K
    from multidecoder.registry import get_keywords

    alphabet = [b"a", b"A", b"-", b"1", b"\xe9", b" "]
    failures, n, distinct = [], 0, set()
    maxd = 5 if tier == "quick" else 6
    kws = [b"".join(t) for L in (1, 2, 3) for t in itertools.product([b"a", b"A", b"-", b"1", b" "], repeat=L)]
    datas = [b"".join(t) for L in range(0, maxd + 1) for t in itertools.product(alphabet, repeat=L)]
    for kw in kws:
        for data in datas[:: (1 if tier != "quick" else 3)]:
            n += 1
            got = K.find_all(kw.lower(), data.lower())
            want = ref_find_all(kw.lower(), data.lower())
            if got != want and len(failures) < 3:
                failures.append({"id": f"find_all({kw!r},{data!r})", "function": "multidecoder.keyword.find_all", "obligation": "post", "case": {"kw": kw.hex(), "data": data.hex()},
                                 "observed": f"find_all({kw.lower()!r}, {data.lower()!r}) = {got}, reference {want}"})
            if got:
                distinct.add((kw, data))
        # nodes
    for kw in kws[::7]:
        for data in datas[::11]:
            n += 1
            nodes = K.find_keywords("lbl", [kw], data)
            want = [("lbl", kw, "MixedCase" if ref_mixed(kw, data[p : p + len(kw)]) else "", p, p + len(kw)) for p in ref_find_all(kw.lower(), data.lower())]
            got = [(x.type, x.value, x.obfuscation, x.start, x.end) for x in nodes]
            if got != want and len(failures) < 5:
                failures.append({"id": f"find_keywords({kw!r},{data!r})", "function": "multidecoder.keyword.find_keywords", "obligation": "post", "case": {"kw": kw.hex(), "data": data.hex(), "nodes": True},
                                 "observed": f"find_keywords = {got}, reference {want}"})
    # registry-built searchers report the keyword AS LISTED (C17 / C18)
    with tempfile.TemporaryDirectory() as d:
        listed = [b" -enc", b"a-a", b"Tab\there ", b"x"]
        with open(os.path.join(d, "mylist"), "wb") as f:
            f.write(b"\n".join(listed) + b"\n\n")
        reg = get_keywords(d)
        for data in [b"x -enc y", b"; -EnC;", b"ba-a-a a-a", b"tab\there  z", b"-enc"]:
            n += 1
            got = sorted((x.type, x.value, x.start, x.end) for s in reg for x in s(data))
            want = sorted(("mylist", kw, p, p + len(kw)) for kw in listed for p in ref_find_all(kw.lower(), data.lower()))
            if got != want and len(failures) < 7:
                failures.append({"id": f"registry keyword searcher on {data!r}", "function": "multidecoder.registry.get_keywords", "obligation": "post", "case": {"registry_data": data.hex()},
                                 "observed": f"hits {got}, reference {want}"})
    return {"evaluations": n, "distinct_nontrivial": len(distinct), "scope": f"keywords up to 3 bytes over {{a,A,-,1,space}} x data up to {maxd} bytes over {{a,A,-,1,0xE9,space}}; a registry built from a directory with keywords that have leading/trailing blanks",
            "failures": failures, "samples": [{"kw": "612d61", "data": "62612d612d61"}]}


BOUNDED = [bounded_keyword]


def replay(case):
    r = bounded_keyword("quick", 0)
    for f in r["failures"]:
        if f["case"] == case:
            return False, f["observed"]
    from multidecoder import keyword as K

    if "kw" in case:
        kw, data = bytes.fromhex(case["kw"]), bytes.fromhex(case["data"])
        got, want = K.find_all(kw.lower(), data.lower()), ref_find_all(kw.lower(), data.lower())
        return got == want, f"find_all = {got}, reference {want}"
    return True, "not reproduced"
