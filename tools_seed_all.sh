#!/bin/bash
# tools_seed_all.sh [out-file] : run every seeded change (and every benign control) against the quick check of the property it breaks.
# Applies each patch to /repo, runs the check, restores /repo straight away (tools_seedtest.sh).  One line per change in the out-file.
out=${1:-/tmp/seed_all.out}; : > $out
cd /verif
for d in seeded/*/; do
  n=$(basename $d); p=$(python3 -c "import json;print(json.load(open('$d/meta.json'))['breaks_property'])")
  extra=$(python3 -c "import json;print(' '.join(json.load(open('$d/meta.json')).get('also_run',[])))")
  r=$(./tools_seedtest.sh /verif/$d/patch.diff $([ "$p" = C02 ] || echo $p) $extra 2>&1)
  rc=$(echo "$r" | grep -o "rc=[0-9]*" | tr '\n' ' ')
  ded=$(echo "$r" | grep VIOLATION | grep -vc "bounded")
  bnd=$(echo "$r" | grep VIOLATION | grep -c "bounded")
  echo "$n $p $rc deductive_violations=$ded bounded_violations=$bnd" >> $out
  python3 - "$d/meta.json" "$rc" "$ded" "$bnd" <<'PY'
import json, sys
f, rc, ded, bnd = sys.argv[1:5]
m = json.load(open(f))
m["last_run"] = {"exit_codes": rc.strip(), "violation_lines_from_obligations": int(ded), "violation_lines_from_bounded_stand_ins": int(bnd),
                 "note": "counted over the first lines the check printed (it prints at most a handful per run)"}
json.dump(m, open(f, "w"), indent=1)
PY
done
for f in seeded_benign/*.diff; do
  n=$(basename $f .diff)
  case $n in B1_benign1) props=C03;; B1_benign2) props=C19;; B1_benign3) props=C17;; B1_benign4) props=C17;; B1_benign5) props=C06;; B1_benign6) props=C03;;
    B2_benign1) props=C16;; B2_benign2) props=C16;; B2_benign3) props=C11;; B2_benign4) props=C14;; B2_benign5) props=C13;; B2_benign6) props=C13;;
    B3_benign1|B3_benign2|B3_benign3|B3_benign5) props=C12;; B3_benign4) props=C10;; B3_benign6|B3_benign7) props=C20;; B3_benign8|B3_benign9) props=C03;; B3_benign10) props=C18;; *) props="C03";; esac
  r=$(./tools_seedtest.sh /verif/$f $props 2>&1)
  echo "BENIGN $n $(echo "$r" | grep -o 'rc=[0-9]*' | tr '\n' ' ') violations=$(echo "$r" | grep -c VIOLATION)" >> $out
done
