"""pyvc - a verification-condition generator for the Python subset used by Multidecoder.

Forward symbolic execution of the *real* function AST (read from /repo on every run), cut at loops by
invariants and at calls by contracts (sidecar files in /verif/contracts), one SMT query per obligation per
path, discharged by z3 in killable child processes.  See /verif/DESIGN.md section 3.
"""
