"""Specification functions: pure Python functions (if/return chains, let-bindings, recursion) registered with
@spec in a contract file.  They are executable as they stand (run-time contract evaluation) and are translated
here into z3 recursive function definitions using the SAME expression evaluator as the code under proof."""
from __future__ import annotations

import ast
import inspect
import textwrap

import z3

from .contract import SPECS
from .values import *  # noqa: F403

KIND_OF_ANN = {"int": "int", "bytes": "bytes", "bool": "bool", "str": "str", "Node": "ref", "json": "json"}


_GLOBAL: dict = {}


def spec_function(ex, name: str, st):
    ex.rec_specs = _GLOBAL  # one definition per process (z3 forbids redefinition)
    if name in ex.rec_specs:
        return ex.rec_specs[name]
    fn = SPECS[name]
    src = textwrap.dedent(inspect.getsource(fn))
    fdef = ast.parse(src).body[0]
    params = []
    for a in fdef.args.args:
        ann = ast.unparse(a.annotation) if a.annotation is not None else None
        ann = ann.strip("'\"") if ann else None
        if ann in KIND_OF_ANN:
            params.append((a.arg, KIND_OF_ANN[ann]))
        elif ann in ("list[int]", "list[bytes]", "list[Node]"):
            params.append((a.arg, "list:" + {"int": "int", "bytes": "bytes", "Node": "ref"}[ann[5:-1]]))
        else:
            raise Unsupported(f"spec {name}: parameter {a.arg} needs an annotation (int/bytes/bool/str/Node/list[..])")
    ret_ann = ast.unparse(fdef.returns).strip("'\"") if fdef.returns is not None else None
    if ret_ann not in KIND_OF_ANN:
        raise Unsupported(f"spec {name}: return annotation")
    ret = KIND_OF_ANN[ret_ann]
    sorts = []
    for _, k in params:
        if k.startswith("list:"):
            sorts.extend([z3.ArraySort(I, ELEM_SORT[k[5:]]), I])
        else:
            sorts.append(sort_of_kind(k))
    # a specification function that looks at nodes is a function of the HEAP as well: the heap arrays are explicit parameters, so that the
    # same definition can be applied in the pre-state and in the post-state of a function that allocates or writes nodes
    heap_fields = sorted(st.heap) if any(k == "ref" or k == "list:ref" for _, k in params) else []
    hconsts = {fld: z3.Const(f"{name}_H_{fld}", st.heap[fld].sort()) for fld in heap_fields}
    sorts.extend(hconsts[fld].sort() for fld in heap_fields)
    f = z3.RecFunction(f"spec_{name}", *sorts, sort_of_kind(ret))
    ex.rec_specs[name] = (f, ret, heap_fields)  # registered before the body is translated: recursion
    view = st.clone()
    view.path = []
    view.guards = []
    view.store = {}
    if heap_fields:
        view.heap = dict(hconsts)
    zargs = []
    for p, k in params:
        if k.startswith("list:"):
            arr = z3.Const(f"{name}_{p}_arr", z3.ArraySort(I, ELEM_SORT[k[5:]]))
            n = z3.Const(f"{name}_{p}_len", I)
            zargs.extend([arr, n])
            view.store[p] = VList(arr, n, k[5:])
        else:
            z = z3.Const(f"{name}_{p}", sort_of_kind(k))
            zargs.append(z)
            view.store[p] = elem_val(k, z)
    saved = getattr(ex, "spec_mode", False)
    ex.spec_mode = True
    ex.in_recdef = getattr(ex, "in_recdef", 0) + 1  # the body of a recursive definition is a term over its parameters: operations are written natively (no side facts)
    try:
        body = pure_block(ex, fdef.body, view)
    finally:
        ex.spec_mode = saved
        ex.in_recdef -= 1
    if body.kind != ret and not (ret == "ref" and body.kind == "ref"):
        raise Unsupported(f"spec {name}: body has kind {body.kind}, declared {ret}")
    zargs.extend(hconsts[fld] for fld in heap_fields)
    z3.RecAddDefinition(f, zargs, body.z)
    return ex.rec_specs[name]


def pure_block(ex, stmts, view) -> V:
    """if/return chains with let-bindings -> one value."""
    for i, s in enumerate(stmts):
        if isinstance(s, ast.Expr) and isinstance(s.value, ast.Constant):
            continue
        if isinstance(s, ast.Assign) and len(s.targets) == 1 and isinstance(s.targets[0], ast.Name):
            view.store[s.targets[0].id] = ex.eval(s.value, view)
            continue
        if isinstance(s, ast.Return):
            return ex.eval(s.value, view)
        if isinstance(s, ast.If):
            c = ex.truthy(ex.eval(s.test, view), view)
            v1 = view.clone()
            a = pure_block(ex, s.body, v1)
            v2 = view.clone()
            rest = (s.orelse if s.orelse else []) + stmts[i + 1 :]
            b = pure_block(ex, rest, v2)
            return ex.ite(c, a, b)
        raise Unsupported(f"spec function statement {type(s).__name__}")
    raise Unsupported("spec function without return")
