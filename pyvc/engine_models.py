"""Assumed contracts used by the engine proof: `DecoderOK` for an arbitrary registry entry, and `sorted`.

DecoderOK (DESIGN.md 4.2) is the ONE interface between engine and decoders: the engine proof assumes it of every
registry entry (it is the hypothesis of C04-C08, "for any registry whose decoders return in-bounds hits"), and the
decoder checks prove it of each shipped decoder.
"""
from __future__ import annotations

import ast

import z3

from .values import *  # noqa: F403

DECODER_OK_TEXT = (
    "DecoderOK(f): f(data) terminates, raises nothing and returns hits that are (a) freshly allocated together with all their "
    "descendants, pairwise distinct; (b) parentless with 0 <= start <= end <= len(data); (c) every supplied child c of an "
    "allocated node p has c.parent is p, 0 <= c.start <= c.end <= len(p.value), siblings pairwise distinct, c in the same "
    "pre-assembled structure (ghost own); (d) f writes nothing but what it allocates"
)


def is_registry_genexp(ex, node, st):
    """(hit for search in <registry> for hit in search(X) [if cond])"""
    if len(node.generators) != 2:
        return False
    g1, g2 = node.generators
    if g1.ifs or not isinstance(g1.target, ast.Name):
        return False
    try:
        src = ex.eval(g1.iter, st)
    except Unsupported:
        return False
    if not (isinstance(src, VObj) and src.cls == "registry"):
        return False
    c = g2.iter
    return isinstance(c, ast.Call) and isinstance(c.func, ast.Name) and c.func.id == g1.target.id and len(c.args) == 1


def registry_batch(ex, node, st):
    from .exec import HEAP_FIELDS

    g1, g2 = node.generators
    x = ex.eval(g2.iter.args[0], st)  # the text handed to every decoder
    if not isinstance(x, VBytes):
        raise Unsupported("registry entry applied to a non-bytes value")
    if not (isinstance(node.elt, ast.Name) and isinstance(g2.target, ast.Name) and node.elt.id == g2.target.id):
        raise Unsupported("registry comprehension shape")
    # obligations attached to every invocation of a registry entry (C07: only with a positive depth budget)
    for nm, e in ex.c.registry_requires.items():
        ex.oblige(st, "registry-call", nm, ex.spec_bool(e, st), getattr(ex, "cur_line", 0))
    ex.assumed.add(DECODER_OK_TEXT)
    A0 = st.alloc
    A1 = fresh("alloc@batch", I)
    st.assume(A1 >= A0)
    old = dict(st.heap)
    r = fresh("r", I)
    for f in list(HEAP_FIELDS) + ["children", "nchildren"]:
        new = fresh(f"H_{f}@batch", st.heap[f].sort())
        st.assume(z3.ForAll([r], z3.Implies(z3.And(0 <= r, r < A0), new[r] == old[f][r])))  # (d)
        st.heap[f] = new
    st.alloc = A1
    h = st.heap
    k = fresh("k", I)
    k2 = fresh("k2", I)
    inb = z3.And(A0 <= r, r < A1)
    ch = lambda p, i: h["children"][p][i]  # noqa: E731
    # (c) supplied sub-structure of every node of the batch
    st.assume(z3.ForAll([r], z3.Implies(inb, z3.And(h["nchildren"][r] >= 0, h["parent"][r] >= -1, h["parent"][r] < A1, A0 <= h["own"][r], h["own"][r] < A1))))
    st.assume(
        z3.ForAll(
            [r, k],
            z3.Implies(
                z3.And(inb, 0 <= k, k < h["nchildren"][r]),
                z3.And(
                    A0 <= ch(r, k),
                    ch(r, k) < A1,
                    h["parent"][ch(r, k)] == r,
                    0 <= h["start"][ch(r, k)],
                    h["start"][ch(r, k)] <= h["end"][ch(r, k)],
                    h["end"][ch(r, k)] <= z3.Length(h["value"][r]),
                    h["own"][ch(r, k)] == h["own"][r],
                ),
            ),
        )
    )
    st.assume(z3.ForAll([r, k, k2], z3.Implies(z3.And(inb, 0 <= k, k < k2, k2 < h["nchildren"][r]), ch(r, k) != ch(r, k2))))
    # ghost pre-order interval numbering of every pre-assembled structure (exists for any finite forest)
    from .builtins_tbl import hi_term, uf

    LO = uf(ex, "LO", I, I)
    HI = lambda z: hi_term(ex, z)  # noqa: E731
    st.assume(z3.ForAll([r], z3.Implies(inb, LO(r) <= HI(r))))
    st.assume(
        z3.ForAll(
            [r, k],
            z3.Implies(z3.And(inb, 0 <= k, k < h["nchildren"][r]), z3.And(LO(r) < LO(ch(r, k)), HI(ch(r, k)) <= HI(r))),
        )
    )
    st.assume(z3.ForAll([r, k, k2], z3.Implies(z3.And(inb, 0 <= k, k < k2, k2 < h["nchildren"][r]), HI(ch(r, k)) < LO(ch(r, k2)))))
    # the list of hits (after the comprehension's own filter)
    n = fresh("nhits", I)
    G = fresh("hits", ArrII)
    st.assume(n >= 0)
    lst = VList(G, n, "ref")
    facts = []

    def elem_fact(zr):
        fs = [
            A0 <= zr,
            zr < A1,
            h["parent"][zr] == -1,  # (b)
            0 <= h["start"][zr],
            h["start"][zr] <= h["end"][zr],
            h["end"][zr] <= z3.Length(x.z),
            h["own"][zr] == zr,
        ]
        # the comprehension's filter holds of every element
        view = st.clone()
        view.in_binder += 1
        view.store = dict(st.store)
        view.store[g2.target.id] = VRef(zr)
        saved = getattr(ex, "spec_mode", False)
        ex.spec_mode = True
        try:
            for cond in g2.ifs:
                fs.append(ex.truthy(ex.eval(cond, view), view))
        finally:
            ex.spec_mode = saved
        return z3.And(*fs)

    i = fresh("i", I)
    j = fresh("j", I)
    st.assume(z3.ForAll([i], z3.Implies(z3.And(0 <= i, i < n), elem_fact(G[i]))))
    st.assume(z3.ForAll([i, j], z3.Implies(z3.And(0 <= i, i < j, j < n), G[i] != G[j])))  # (a)
    lst.elem_fact = elem_fact
    lst.batch = (A0, A1)
    st.labels = dict(st.labels)
    return lst


def model_sorted(ex, lst: VList, keyfn, st):
    """sorted(list, key=f): a stable sort.  Assumed contract: the result is a permutation of the argument (ghost
    index maps PI / PINV), non-decreasing in the key, and equal keys keep their original relative order."""
    ex.assumed.add("sorted(iterable, key=f): stable permutation, non-decreasing in f (validated at run time)")
    if lst.ek is None:
        return lst
    n = lst.n
    R = fresh("sorted", lst.arr.sort())
    PI = fresh("PI", ArrII)
    PINV = fresh("PINV", ArrII)
    i = fresh("i", I)
    j = fresh("j", I)
    st.assume(z3.ForAll([i], z3.Implies(z3.And(0 <= i, i < n), z3.And(0 <= PI[i], PI[i] < n, R[i] == lst.arr[PI[i]], PINV[PI[i]] == i))))
    st.assume(z3.ForAll([i], z3.Implies(z3.And(0 <= i, i < n), z3.And(0 <= PINV[i], PINV[i] < n, PI[PINV[i]] == i))))
    out = VList(R, n, lst.ek)
    out.origin = PI  # ghost: position of each element in the unsorted iterable (for "ties keep registry order")
    ef = getattr(lst, "elem_fact", None)
    if ef is not None:
        st.assume(z3.ForAll([i], z3.Implies(z3.And(0 <= i, i < n), ef(R[i]))))
        out.elem_fact = ef
        out.batch = getattr(lst, "batch", None)
    if lst.ek == "ref":
        st.assume(z3.ForAll([i, j], z3.Implies(z3.And(0 <= i, i < j, j < n), R[i] != R[j])))

    def key(zr, view):
        saved = getattr(ex, "spec_mode", False)
        ex.spec_mode = True
        try:
            return ex.inline_lambda(keyfn, [elem_val(lst.ek, zr)], view)
        finally:
            ex.spec_mode = saved

    view = st.clone()
    view.in_binder += 1
    ki, kj = key(R[i], view), key(R[j], view)
    le = ex.compare(ast.LtE(), ki, kj, view)
    eq = ex.equal(ki, kj, view)
    st.assume(z3.ForAll([i, j], z3.Implies(z3.And(0 <= i, i < j, j < n), le)))
    st.assume(z3.ForAll([i, j], z3.Implies(z3.And(0 <= i, i < j, j < n, eq), PI[i] < PI[j])))
    return out
