"""./check <property> --tier quick|thorough [--replay <file>] [--update-baseline]

Decides one property: generates the verification conditions of the functions the property depends on from /repo's
CURRENT source, discharges them, runs the property's bounded stand-ins (run-time contracts on the real code),
matches failures against KNOWN_FINDINGS.txt, writes evidence/<id>.json and exits

  0  every obligation discharged and no bounded stand-in failed (known findings are listed, not alarms)
  1  VIOLATION property=<id> replay=<path>      (an obligation refuted, or a concrete failing input found)
  2  UNDECIDED  (solver unknown / timeout and no failing input found)
  3  the checker could not run (unsupported construct, contract anchor mismatch, vacuous contract, internal error)
"""
from __future__ import annotations

import argparse
import importlib
import json
import os
import re
import sys
import time
import traceback

ROOT = os.path.dirname(os.path.dirname(os.path.abspath(__file__)))
if ROOT not in sys.path:
    sys.path.insert(0, ROOT)

from pyvc import driver, solve  # noqa: E402
from pyvc.contract import CONTRACTS, LEMMAS  # noqa: E402


def load_known():
    known, fixed = [], []
    p = os.path.join(ROOT, "KNOWN_FINDINGS.txt")
    if not os.path.exists(p):
        return known, fixed
    for line in open(p):
        line = line.strip()
        if not line or line.startswith("#"):
            continue
        if line.startswith("known:"):
            d = {}
            body = line[len("known:") :].strip()
            m = re.match(r"property=(\S+)\s+match=(\S+)\s+(?:carve=`([^`]*)`\s+)?witness=(\S+)\s+what=(.*)$", body)
            if not m:
                raise SystemExit(f"KNOWN_FINDINGS.txt: malformed line: {line}")
            d = {"property": m.group(1), "match": m.group(2), "carve": m.group(3), "witness": m.group(4), "what": m.group(5)}
            known.append(d)
        elif line.startswith("fixed:"):
            fixed.append(line)
    return known, fixed


def main(argv=None):
    ap = argparse.ArgumentParser()
    ap.add_argument("property")
    ap.add_argument("--tier", default=os.environ.get("VERIF_TIER", "quick"))
    ap.add_argument("--replay")
    ap.add_argument("--update-baseline", action="store_true")
    ap.add_argument("--verbose", "-v", action="store_true")
    args = ap.parse_args(argv)
    pid = args.property
    seed = int(os.environ.get("VERIF_SEED", "0") or 0)
    tier = args.tier if args.tier in ("quick", "thorough") else "quick"
    t0 = time.time()
    try:
        driver.load_contracts()
        prop = importlib.import_module(f"props.{pid}")
    except Exception:  # noqa: BLE001
        traceback.print_exc()
        print(f"CHECKER-ERROR property={pid} cannot load contracts / property definition")
        return 3
    if args.replay:
        return do_replay(prop, pid, args.replay)
    if getattr(prop, "NOT_APPLICABLE", None):
        print(f"CHECKER-ERROR property={pid} is not claimed (not applicable: see MANIFEST.json); no check is registered and no evidence is written")
        return 3
    rc = run_property(prop, pid, tier, seed, args, t0)
    return rc


def do_replay(prop, pid, path):
    case = json.load(open(path))
    if isinstance(case.get("case"), dict) and "args" in case["case"] and "function" in case["case"]:
        g = generic_function_replay(case["case"]["function"], case["case"]["args"])
        print(g[1] if g else "cannot rebuild the arguments")
        if g and g[0]:
            print(f"VIOLATION property={pid} replay={path}")
            return 1
        return 0
    fn = getattr(prop, "replay", None)
    if fn is None or "case" not in case:
        print(json.dumps(case, indent=1))
        print("(no concrete input in this replay file: it records a refuted obligation)")
        return 1
    ok, msg = fn(case["case"])
    print(msg)
    if not ok:
        print(f"VIOLATION property={pid} replay={path}")
        return 1
    print("replayed input no longer fails")
    return 0


RESIDUALS: dict = {}


def discharge_grouped(obs, budget, sd):
    """Alternative proofs of one clause: the peeled parts first; the `whole` form is only attempted for clauses some part of which stayed open."""
    has_parts = {o.group for o in obs if o.group and o.role == "part"}
    first = [k for k, o in enumerate(obs) if not (o.role == "whole" and o.group in has_parts)]
    res = [None] * len(obs)
    for k, r in zip(first, solve.discharge([obs[k] for k in first], budget, sd)):
        res[k] = r
    open_groups = {obs[k].group for k in first if obs[k].role == "part" and res[k]["verdict"] != "proved"}
    second = [k for k, o in enumerate(obs) if res[k] is None and o.group in open_groups]
    if second:
        for k, r in zip(second, solve.discharge([obs[k] for k in second], budget, sd)):
            res[k] = r
    for k in range(len(obs)):
        if res[k] is None:
            res[k] = {"verdict": "unknown", "reason": "not attempted: every peeled part of the clause was discharged", "time": 0.0, "backend": "-"}
    return res


def collapse_groups(obs, results):
    """Alternative proofs of one clause (whole / peeled parts): the clause is discharged when the whole is proved or all parts
    are; otherwise it is represented by its `whole` obligation with that verdict.  Parts are never reported on their own."""
    groups = {}
    for o, r in zip(obs, results):
        if o.role == "residual":
            RESIDUALS[o.group] = r
            continue
        if o.group:
            groups.setdefault(o.group, {"whole": None, "parts": []})
            if o.role == "whole":
                groups[o.group]["whole"] = (o, r)
            else:
                groups[o.group]["parts"].append((o, r))
    out_o, out_r = [], []
    for o, r in zip(obs, results):
        if o.role == "residual":
            continue
        if not o.group:
            out_o.append(o)
            out_r.append(r)
            continue
        if o.role != "whole":
            continue
        g = groups[o.group]
        if r["verdict"] != "proved" and g["parts"] and all(pr["verdict"] == "proved" for _, pr in g["parts"]):
            r = {"verdict": "proved", "time": sum(pr.get("time", 0) for _, pr in g["parts"]), "backend": g["parts"][0][1].get("backend", "z3") + " (peeled)"}
        out_o.append(o)
        out_r.append(r)
    return out_o, out_r


def norm_name(name: str) -> str:
    """Obligation name without path numbers and line offsets (stable under edits that move lines)."""
    return re.sub(r"@L\d+", "@L", re.sub(r"#\d+", "", name))


def load_baseline(pid):
    p = os.path.join(ROOT, "baseline", f"{pid}.txt")
    if not os.path.exists(p):
        return None
    return {ln.strip() for ln in open(p) if ln.strip()}


def load_prefer(pid):
    """name -> portfolio entry that discharged the obligation slowly on the unchanged tree (written with --update-baseline; only a search-order hint)."""
    p = os.path.join(ROOT, "baseline", f"{pid}.prefer")
    out = {}
    if os.path.exists(p):
        for ln in open(p):
            nm, _, be = ln.rstrip("\n").partition("\t")
            if nm and be:
                out[nm] = be
    return out


def obligation_selected(prop, name: str) -> bool:
    sel = getattr(prop, "SELECT", None)
    if sel is None:
        return True
    return any(re.search(p, name) for p in sel)


def run_property(prop, pid, tier, seed, args, t0):
    budget = float(os.environ.get("VERIF_TIMEOUT", "20" if tier == "quick" else "60"))
    if tier != "quick":
        solve.USE_CACHE[0] = False  # thorough: every obligation is discharged afresh (and under two seeds)
    functions = list(getattr(prop, "FUNCTIONS", []))
    exclude = getattr(prop, "EXCLUDE_CLAUSES", ())
    known, fixed = load_known()
    known = [k for k in known if k["property"] == pid]
    # ------------------------------------------------------------------ 1. deductive part
    carves = [(k["match"], k["carve"]) for k in known if k.get("carve")]
    obs, info = driver.generate(functions, tier=tier, exclude=exclude, carves=carves) if functions else ([], {})
    lemma_obs = driver.generate_lemmas(getattr(prop, "LEMMAS", []))
    prefer = load_prefer(pid)
    for o_ in obs:
        o_.prefer = prefer.get(o_.name, "")
    obs = [o for o in obs if obligation_selected(prop, o.name)] + lemma_obs
    not_run = {q: i for q, i in info.items() if i["status"] != "ok"}
    seeds = [seed] if tier == "quick" else [seed, seed + 1]
    results = None
    for sd in seeds:
        res = discharge_grouped(obs, budget, sd)
        if results is None:
            results = res
        else:
            # thorough: an obligation must be discharged under every seed (unstable proofs are reported)
            for k, r in enumerate(res):
                if r["verdict"] != results[k]["verdict"]:
                    results[k] = dict(r, unstable=True) if r["verdict"] != "proved" else dict(results[k], unstable=True)
    results = results or []
    obs, results = collapse_groups(obs, results)
    # one retry for whatever the solver left open (another seed, twice the budget, less contention): verdicts must not
    # flip because the machine is busy
    open_idx = [k for k, (o, r) in enumerate(zip(obs, results)) if o.kind != "vacuity" and r["verdict"] not in ("proved", "refuted")
                and not (RESIDUALS.get(o.name, {}).get("verdict") == "proved")]  # a recorded finding whose residual is discharged is not retried
    if open_idx and len(open_idx) <= 40:
        again = solve.discharge([obs[k] for k in open_idx], budget * 2, seed + 3)
        for k, r2 in zip(open_idx, again):
            if r2["verdict"] in ("proved", "refuted"):
                results[k] = dict(r2, retried=True)
    proved, refuted, unknown, vacuous = [], [], [], []
    vac_groups = {}
    demoted_spec = getattr(prop, "DEMOTED", {})
    demoted = []
    for o, r in zip(obs, results):
        if r["verdict"] not in ("proved", "ok", "ok-unknown", "vacuous") and any(re.search(p_, o.name) for p_ in demoted_spec):
            # an obligation the verifier cannot decide on the unchanged tree: demoted to the bounded stand-in, listed, never counted
            demoted.append((o, r, next(v_ for p_, v_ in demoted_spec.items() if re.search(p_, o.name))))
            continue
        if o.kind == "vacuity":
            base = o.name.split("#")[0]
            vac_groups.setdefault(base, []).append(r["verdict"])
            continue
        v = r["verdict"]
        (proved if v == "proved" else refuted if v == "refuted" else unknown).append((o, r))
    for base, vs in vac_groups.items():
        if all(v == "vacuous" for v in vs):
            vacuous.append(base)
    # ------------------------------------------------------------------ 2. bounded stand-ins (run-time contracts on the real code)
    bounded_results = []
    failures = []
    for b in getattr(prop, "BOUNDED", []):
        tb = time.time()
        try:
            r = b(tier, seed)
        except Exception as e:  # noqa: BLE001
            traceback.print_exc()
            print(f"CHECKER-ERROR property={pid} bounded stand-in {b.__name__} crashed: {type(e).__name__}: {e}")
            return 3
        r["name"] = b.__name__
        r["wall_s"] = round(time.time() - tb, 2)
        bounded_results.append(r)
        for f in r.get("failures", []):
            failures.append(dict(f, source=b.__name__))
    # ------------------------------------------------------------------ 3. triage
    os.makedirs(os.path.join(ROOT, "replay"), exist_ok=True)
    lines = []
    violation_files = []
    known_hit = []

    def match_known(text):
        for k in known:
            if re.search(k["match"], text):
                return k
        return None

    failing_obs = [(o, r, "refuted") for o, r in refuted] + [(o, r, r["verdict"]) for o, r in unknown]
    # A refuted obligation is a violation (its counter-model is replayed on the real code where it is an input, else a
    # failing input found by the stand-ins for the same function is attached, else `no-failing-input-found`).
    # An obligation the solver could not decide is a violation only together with a concrete failing input.
    undecided = []
    used_failures = set()

    def related_failure(o):
        short = o.func.split(".")[-1]
        for idx, f in enumerate(failures):
            fn_ = f.get("function") or ""
            if (fn_ and (o.func == fn_ or o.func.endswith(fn_) or fn_.endswith(o.func))) or short in f.get("where", ()) or f"({short})" in str(f.get("observed", "")):
                if match_known(f.get("id", "") + " " + fn_ + " " + str(f.get("observed", ""))) is None:
                    return idx, f
        return None, None

    for o, r, v in failing_obs:
        k = match_known(o.name)
        if k is not None and k.get("carve"):
            # a recorded finding with a carve-out only covers the failure if the residual obligation is discharged
            res = RESIDUALS.get(o.name)
            if res is not None and res.get("verdict") == "proved":
                known_hit.append((k, o.name))
                continue
        elif k is not None:
            known_hit.append((k, o.name))
            continue
        case, observed = None, None
        if v == "refuted":
            try:
                g = generic_function_replay(o.func, r.get("model", {}))
            except Exception:  # noqa: BLE001
                g = None
            if g is not None and g[0]:
                case, observed = {"function": o.func, "args": r.get("model", {})}, g[1]
            rp = getattr(prop, "model_to_case", None) if case is None else None
            if rp is not None and getattr(prop, "replay", None):
                try:
                    c0 = rp(o, r.get("model", {}))
                    if c0 is not None:
                        ok, msg = prop.replay(c0)
                        if not ok:
                            case, observed = c0, msg
                except Exception:  # noqa: BLE001
                    pass
        if case is None:
            idx, f = related_failure(o)
            if f is not None:
                case, observed = f["case"], f["observed"]
                used_failures.add(idx)
        path = os.path.join("replay", safe(f"{pid}__{o.name}.json"))
        rec = {"property": pid, "obligation": o.name, "function": o.func, "verdict": v, "solver": r, "line": o.line}
        if case is not None:
            rec["case"], rec["observed"] = case, observed
            json.dump(rec, open(os.path.join(ROOT, path), "w"), indent=1, default=str)
            lines.append(f"VIOLATION property={pid} replay={path}")
            violation_files.append(path)
        elif v == "refuted":
            json.dump(rec, open(os.path.join(ROOT, path), "w"), indent=1, default=str)
            lines.append(f"VIOLATION property={pid} replay={path} no-failing-input-found")
            violation_files.append(path)
        else:
            undecided.append((o, r))
    # An obligation that is in the committed baseline (it was discharged on the unchanged tree) and cannot be discharged
    # now, even with three times the budget and another seed, FAILS: the violation is reported with the solver's output.
    baseline = load_baseline(pid)
    if undecided and baseline is not None and not args.update_baseline:
        cand = [(o, r) for o, r in undecided if norm_name(o.name) in baseline]
        if cand:
            again = solve.discharge([o for o, _ in cand], budget * 3, seed + 7)
            for extra_seed in (seed + 11, seed + 13):
                # a proof that exists but is found late by the first strategy must not turn into an alarm on a busy machine:
                # whatever is still open is tried under two more seeds before it is reported as no longer dischargeable
                still = [k for k, r2 in enumerate(again) if r2["verdict"] not in ("proved", "refuted")]
                if not still or len(still) > 8:
                    break
                more = solve.discharge([cand[k][0] for k in still], budget * 3, extra_seed)
                for k, r3 in zip(still, more):
                    if r3["verdict"] in ("proved", "refuted"):
                        again[k] = r3
            for (o, r), r2 in zip(cand, again):
                if r2["verdict"] == "proved":
                    undecided.remove((o, r))
                    proved.append((o, r2))
                    unknown.remove((o, r))
                    continue
                undecided.remove((o, r))
                path = os.path.join("replay", safe(f"{pid}__{o.name}.json"))
                rec = {"property": pid, "obligation": o.name, "function": o.func, "verdict": "failed (discharged on the unchanged tree, not dischargeable now)",
                       "solver": r2, "first_attempt": r, "line": o.line, "goal": str(o.goal)[:2000]}
                json.dump(rec, open(os.path.join(ROOT, path), "w"), indent=1, default=str)
                lines.append(f"VIOLATION property={pid} replay={path} no-failing-input-found")
                violation_files.append(path)
    extra = 0
    for idx, f in enumerate(failures):
        if match_known(f.get("id", "") + " " + (f.get("function") or "") + " " + str(f.get("observed", ""))) is not None:
            known_hit.append((match_known(f.get("id", "") + " " + (f.get("function") or "") + " " + str(f.get("observed", ""))), f.get("id", "")))
            continue
        if idx in used_failures or (used_failures and any(failures[u].get("function") == f.get("function") for u in used_failures)):
            continue  # the same defect is already reported through the obligation it fails
        if extra >= 3:
            continue
        extra += 1
        path = os.path.join("replay", safe(f"{pid}__{f['source']}__{f.get('id', 'case')}.json"))
        rec = {"property": pid, "obligation": f.get("obligation", f["source"]), "function": f.get("function"), "case": f["case"], "observed": f["observed"], "expected": f.get("expected"), "bounded": True}
        json.dump(rec, open(os.path.join(ROOT, path), "w"), indent=1, default=str)
        lines.append(f"VIOLATION property={pid} replay={path}")
        violation_files.append(path)
    # known findings must still reproduce (otherwise the entry is stale and says so)
    seen = set()
    for k, what in known_hit:
        if k["what"] in seen:
            continue
        seen.add(k["what"])
        print(f"KNOWN-FINDING: property={pid} {k['what']}")
    # an undecided obligation with a related concrete failure has been reported through the failure; otherwise undecided
    still_undecided = list(undecided)
    # ------------------------------------------------------------------ 4. evidence
    known_obl = sorted({nm for _, nm in known_hit if "/" in nm and nm.startswith("multidecoder")})
    n_obl = len([o for o in obs if o.kind != "vacuity"]) - len(demoted) - len(known_obl)
    by_backend = {}
    for o, r in proved:
        by_backend[r.get("backend", "z3")] = by_backend.get(r.get("backend", "z3"), 0) + 1
    trusted = set()
    for q, i in info.items():
        for a in i.get("assumed", []):
            trusted.add(a)
    for t in getattr(prop, "TRUSTED", []):
        trusted.add(t)
    samples = []
    for o, r in (proved[:2] + refuted[:2]):
        samples.append({"obligation": o.name, "verdict": r["verdict"], "goal": str(o.goal)[:600], "n_hypotheses": len(o.hyps), "backend": r.get("backend")})
    for br in bounded_results:
        for s in br.get("samples", [])[:2]:
            samples.append({"bounded": br["name"], "case": s})
    level = getattr(prop, "LEVEL", "proof")
    evals = sum(b.get("evaluations", 0) for b in bounded_results)
    distinct = sum(b.get("distinct_nontrivial", 0) for b in bounded_results)
    cov = {
        "obligations": n_obl,
        "discharged": len(proved),
        "refuted": len(refuted),
        "undecided": len(unknown),
        "checker_cmd": f"./check {pid} --tier {tier}",
        "trusted_base": sorted(trusted),
        "functions_under_contract": {q: i for q, i in ((q, {k: v for k, v in i.items() if k in ("status", "obligations", "reason")}) for q, i in info.items())},
        "lemmas": [o.name for o in lemma_obs],
        "by_backend": by_backend,
        "cache_hits": sum(1 for _o, r in proved if r.get("cached")),
        "cache_note": "a cache hit is an obligation whose formula is byte-identical to one an earlier run answered `unsat`; it is listed under the back end that discharged it then and adds no solver time now (VERIF_NOCACHE=1 or the thorough tier re-solve everything)",
        "solver_time_s": round(sum(r.get("time", 0) for r in results), 2),
        "slow": [{"obligation": o.name, "seconds": round(r.get("time", 0), 1), "retried": bool(r.get("retried"))} for o, r in proved if r.get("time", 0) > budget / 10],
        "unstable": [o.name for o, r in zip(obs, results) if r.get("unstable")],
        "vacuity_checks": {"groups": len(vac_groups), "vacuous": vacuous},
        "bounded": [{k: v for k, v in b.items() if k not in ("failures", "samples")} for b in bounded_results],
        "bounded_note": "bounded stand-ins are run-time evaluations of the contracts on the real code over a stated scope; they are never counted in `discharged`",
        "known_findings": sorted({k["what"] for k, _ in known_hit}),
        "known_finding_obligations": known_obl,  # fail on the unchanged tree inside a recorded carve-out (their residuals are discharged); not counted
        "demoted_to_bounded": [{"obligation": o.name, "solver": r.get("verdict"), "reason": why} for o, r, why in demoted],
        "evaluations": max(evals, 1) if bounded_results else n_obl,
        "distinct_nontrivial": max(distinct, 2) if bounded_results and distinct >= 2 else max(len({o.name.split('#')[0] for o, _ in proved}), 0),
        "rule": getattr(prop, "RULE", "one obligation per contract clause per path of the real function's AST; distinct = distinct clause anchors discharged; bounded stand-ins: see `bounded`"),
        "samples": samples or [{"note": "no obligations"}],
        "exclusions": list(exclude),
    }
    if level != "proof":
        cov["explanation"] = getattr(prop, "EXPLANATION", "")
    ev = {
        "property_id": pid,
        "tier": tier,
        "seed": seed,
        "level": level,
        "coverage": cov,
        "assumptions": sorted(trusted) + list(getattr(prop, "ASSUMPTIONS", [])),
        "wall_s": round(time.time() - t0, 2),
        "violations": len(violation_files),
    }
    os.makedirs(os.path.join(ROOT, "evidence"), exist_ok=True)
    json.dump(ev, open(os.path.join(ROOT, "evidence", f"{pid}.json"), "w"), indent=1, default=str)
    # ------------------------------------------------------------------ 5. verdict
    if args.update_baseline and not lines:
        os.makedirs(os.path.join(ROOT, "baseline"), exist_ok=True)
        with open(os.path.join(ROOT, "baseline", f"{pid}.txt"), "w") as f:
            for nm in sorted({norm_name(o.name) for o, _ in proved}):
                f.write(nm + "\n")
        slowp = sorted((o.name, r.get("backend", "")) for o, r in proved if r.get("time", 0) > 3.0 and not r.get("cached") and str(r.get("backend", "")).startswith("z3-euf(strings abstracted)")
                       and "cone" not in r.get("backend", "") and "quantifier-free" not in r.get("backend", "") and "(peeled)" not in r.get("backend", ""))
        if slowp or os.path.exists(os.path.join(ROOT, "baseline", f"{pid}.prefer")):
            keep = load_prefer(pid)
            keep.update(dict(slowp))
            with open(os.path.join(ROOT, "baseline", f"{pid}.prefer"), "w") as f:
                for nm, be in sorted(keep.items()):
                    f.write(f"{nm}\t{be}\n")
    print(f"{pid}: {len(proved)}/{n_obl} obligations discharged, {len(refuted)} refuted, {len(unknown) - len([1 for o, _ in unknown if o.name in known_obl])} undecided"
          + (f", {len(known_obl)} inside recorded findings" if known_obl else "") + "; "
          f"bounded: {evals} evaluations, {len(failures)} failures; {round(time.time() - t0, 1)}s")
    if args.verbose:
        for o, r in refuted + unknown:
            print("  ", r["verdict"], o.name, r.get("model", ""))
    for ln in lines:
        print(ln)
    if lines:
        return 1
    if not_run:
        for q, i in not_run.items():
            print(f"CHECKER-ERROR property={pid} function={q} {i['status']}: {i.get('reason')}")
        return 3
    if vacuous:
        print(f"CHECKER-ERROR property={pid} vacuous contract: {vacuous}")
        return 3
    if n_obl == 0 and not bounded_results:
        print(f"CHECKER-ERROR property={pid} zero obligations")
        return 3
    if still_undecided:
        for o, r in still_undecided:
            print(f"UNDECIDED obligation={o.name} ({r['verdict']}: {r.get('reason', '')})")
        return 2
    return 0


def generic_function_replay(qualname, model):
    """Run the REAL function on the arguments of a counter-model and evaluate its contract at run time.
    -> (failed: bool, message) or None when the model is not a complete set of arguments."""
    import importlib
    import inspect

    from pyvc import rt
    from pyvc.exec import split_qualname

    c = CONTRACTS.get(qualname)
    try:
        modname, fname = split_qualname(qualname)
        obj = importlib.import_module(modname)
        for part in fname.split("."):
            obj = getattr(obj, part)
        sig = inspect.signature(obj)
    except Exception:  # noqa: BLE001
        return None
    for k_, v_ in model.items():
        if k_.startswith("pin_text__") and c is not None and isinstance(v_, dict) and "bytes" in v_:
            # the witness of a refuted language pin: a text the real regex module accepts under exactly one of the two patterns
            import regex as _re

            cname = k_[len("pin_text__"):]
            text = bytes.fromhex(v_["bytes"])
            code_pat, pinned = getattr(importlib.import_module(modname), cname, None), c.pins.get(cname)
            if not isinstance(code_pat, bytes) or pinned is None:
                return None
            a_, b_ = _re.fullmatch(code_pat, text) is not None, _re.fullmatch(pinned, text) is not None
            if a_ != b_:
                return (True, f"the text {text!r} is {'matched' if a_ else 'NOT matched'} as a whole by {cname} = {code_pat!r} and {'matched' if b_ else 'NOT matched'} by the pinned pattern {pinned!r}")
            return (False, f"the real regex module treats {text!r} alike under both patterns (the difference lies in an erased look-around / anchor)")
    # module-level constants of the function's module (pattern constants named by clauses); never shadowing the specification vocabulary
    modglobals = {k: v for k, v in vars(importlib.import_module(modname)).items() if k.isupper() and isinstance(v, (bytes, str, int))}
    args = {}
    for pname, prm in sig.parameters.items():
        if pname in model:
            v = model[pname]
            if isinstance(v, dict) and "bytes" in v:
                v = bytes.fromhex(v["bytes"])
            elif isinstance(v, dict) and "str" in v:
                v = v["str"]
            elif isinstance(v, dict) and "list" in v:
                v = [bytes.fromhex(x["bytes"]) if isinstance(x, dict) else x for x in v["list"]]
            elif isinstance(v, str):
                return None
            args[pname] = v
        elif prm.default is inspect.Parameter.empty:
            return None
    try:
        res = obj(**args)
    except Exception as e:  # noqa: BLE001
        allowed = set(c.raises) | set(c.raises_iff) if c else set()
        if type(e).__name__ in allowed or any(type(e).__name__ == a.split(".")[-1] for a in allowed):
            return (False, f"raised {type(e).__name__} (allowed by the contract)")
        return (True, f"{qualname}({', '.join(f'{k}={v!r}' for k, v in args.items())}) raised {type(e).__name__}: {e}")
    if c is not None:
        for nm, clause in c.ensures.items():
            try:
                ok = rt.eval_clause(clause, dict(modglobals, **args, result=res))
            except Exception:  # noqa: BLE001
                continue  # clause uses ghost state / heap vocabulary that has no run-time meaning
            if not ok:
                return (True, f"{qualname}({', '.join(f'{k}={v!r}' for k, v in args.items())}) = {res!r} violates post/{nm}")
    return (False, "the real function meets its contract on this input")


def safe(s: str) -> str:
    return re.sub(r"[^A-Za-z0-9_.#@-]", "_", s)[:180]


if __name__ == "__main__":
    sys.exit(main())
