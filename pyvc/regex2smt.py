"""Translate the byte patterns used in the repository into z3 regular languages.

The pattern is parsed by CPython's own regex parser (re._parser) from the REAL constant read out of the repo module;
the resulting tree is turned into a z3 `ReRef` over the byte alphabet (characters 0..255).

  to_re(pattern)                  L(P°): P with look-arounds, \\b, ^ and $ ERASED.  Every string the engine can report as
                                  a match of P (or of a group) lies in this language - a sound over-approximation for
                                  "whatever is matched satisfies ..." obligations.  It says nothing about WHICH substring
                                  is matched (leftmost / greedy): that is the search semantics, outside the contract.
  decompose(pattern)              for patterns whose top level is a concatenation: the list of top-level items, each with its
                                  language and, for capture groups, the group number (linear decomposition contract).
"""
from __future__ import annotations

import re
import re._constants as C
import re._parser as P

import z3

from .values import Unsupported

BYTE_MAX = 255
ANY_BYTE = z3.Range(chr(0), chr(BYTE_MAX))
EMPTY_SET = z3.Empty(z3.ReSort(z3.StringSort()))
EPS = z3.Re(z3.StringVal(""))

WORD = [(48, 57), (65, 90), (95, 95), (97, 122)]
DIGIT = [(48, 57)]
SPACE = [(9, 13), (32, 32)]


def _ranges_to_re(ranges):
    ranges = _norm(ranges)
    if not ranges:
        return EMPTY_SET
    parts = [z3.Range(chr(a), chr(b)) if a != b else z3.Re(z3.StringVal(chr(a))) for a, b in ranges]
    return parts[0] if len(parts) == 1 else z3.Union(*parts)


def _norm(ranges):
    ranges = sorted((max(0, a), min(BYTE_MAX, b)) for a, b in ranges if a <= BYTE_MAX and b >= 0)
    out = []
    for a, b in ranges:
        if a > b:
            continue
        if out and a <= out[-1][1] + 1:
            out[-1] = (out[-1][0], max(out[-1][1], b))
        else:
            out.append((a, b))
    return out


def _complement(ranges):
    ranges = _norm(ranges)
    out, cur = [], 0
    for a, b in ranges:
        if a > cur:
            out.append((cur, a - 1))
        cur = b + 1
    if cur <= BYTE_MAX:
        out.append((cur, BYTE_MAX))
    return out


def _casefold(ranges):
    out = list(ranges)
    for a, b in ranges:
        lo, hi = max(a, 65), min(b, 90)
        if lo <= hi:
            out.append((lo + 32, hi + 32))
        lo, hi = max(a, 97), min(b, 122)
        if lo <= hi:
            out.append((lo - 32, hi - 32))
    return _norm(out)


def _category(cat):
    return {
        C.CATEGORY_DIGIT: DIGIT,
        C.CATEGORY_NOT_DIGIT: _complement(DIGIT),
        C.CATEGORY_SPACE: SPACE,
        C.CATEGORY_NOT_SPACE: _complement(SPACE),
        C.CATEGORY_WORD: WORD,
        C.CATEGORY_NOT_WORD: _complement(WORD),
    }[cat]


class Parsed:
    def __init__(self, pattern: bytes):
        self.pattern = pattern
        src = pattern.decode("latin-1")
        self.reverse = False
        if src.startswith("(?r)"):
            self.reverse = True  # `regex` module: search backwards; the LANGUAGE of a match is unchanged
            src = src[4:]
        self.tree = P.parse(src)
        self.flags = self.tree.state.flags
        self.ngroups = self.tree.state.groups - 1


_cache = {}


def parse(pattern: bytes) -> Parsed:
    if pattern not in _cache:
        _cache[pattern] = Parsed(pattern)
    return _cache[pattern]


def _set_ranges(items, icase):
    ranges, negate = [], False
    for op, av in items:
        if op is C.NEGATE:
            negate = True
        elif op is C.LITERAL:
            ranges.append((av, av))
        elif op is C.RANGE:
            ranges.append((av[0], av[1]))
        elif op is C.CATEGORY:
            ranges.extend(_category(av))
        else:
            raise Unsupported(f"regex set item {op}")
    if icase:
        ranges = _casefold(ranges)
    if negate:
        ranges = _complement(ranges)
    return _norm(ranges)


def _seq_to_re(seq, flags, groups, erase=True):
    parts = [_item_to_re(op, av, flags, groups, erase) for op, av in seq]
    parts = [p for p in parts if p is not None]
    if not parts:
        return EPS
    return parts[0] if len(parts) == 1 else z3.Concat(*parts)


def _item_to_re(op, av, flags, groups, erase):
    icase = bool(flags & re.IGNORECASE)
    if op is C.LITERAL:
        return _ranges_to_re(_casefold([(av, av)]) if icase else [(av, av)])
    if op is C.NOT_LITERAL:
        return _ranges_to_re(_complement(_casefold([(av, av)]) if icase else [(av, av)]))
    if op is C.ANY:
        return ANY_BYTE if flags & re.DOTALL else _ranges_to_re(_complement([(10, 10)]))
    if op is C.IN:
        return _ranges_to_re(_set_ranges(av, icase))
    if op is C.BRANCH:
        alts = [_seq_to_re(s, flags, groups, erase) for s in av[1]]
        return z3.Union(*alts) if len(alts) > 1 else alts[0]
    if op in (C.MAX_REPEAT, C.MIN_REPEAT, getattr(C, "POSSESSIVE_REPEAT", None)):
        lo, hi, sub = av
        r = _seq_to_re(sub, flags, groups, erase)
        if hi is C.MAXREPEAT:
            if lo == 0:
                return z3.Star(r)
            if lo == 1:
                return z3.Plus(r)
            return z3.Concat(z3.Loop(r, lo, lo), z3.Star(r))
        if lo == 0 and hi == 1:
            return z3.Option(r)
        return z3.Loop(r, lo, hi)
    if op is C.SUBPATTERN:
        gid, add_flags, del_flags, sub = av
        f2 = (flags | add_flags) & ~del_flags
        r = _seq_to_re(sub, f2, groups, erase)
        if gid is not None:
            groups[gid] = r
        return r
    if op is getattr(C, "ATOMIC_GROUP", None):
        return _seq_to_re(av, flags, groups, erase)
    if op is C.AT:
        if erase:
            return None  # ^ $ \b \B erased: over-approximation
        raise Unsupported("anchor in exact mode")
    if op in (C.ASSERT, C.ASSERT_NOT):
        if erase:
            return None
        raise Unsupported("look-around in exact mode")
    if op is C.GROUPREF:
        raise Unsupported("back-reference")
    raise Unsupported(f"regex op {op}")


def to_re(pattern: bytes):
    """-> (RegLan of the whole pattern with look-arounds/anchors erased, {group number: RegLan of the group's sub-pattern})"""
    p = parse(pattern)
    groups = {}
    r = _seq_to_re(p.tree, p.flags, groups)
    return r, groups


def has_erased(pattern: bytes) -> bool:
    """Does the pattern contain anchors or look-arounds (so that L(P°) over-approximates)?"""
    p = parse(pattern)

    def walk(seq):
        for op, av in seq:
            if op in (C.AT, C.ASSERT, C.ASSERT_NOT):
                return True
            if op is C.BRANCH and any(walk(s) for s in av[1]):
                return True
            if op in (C.MAX_REPEAT, C.MIN_REPEAT) and walk(av[2]):
                return True
            if op is C.SUBPATTERN and walk(av[3]):
                return True
        return False

    return walk(p.tree)


def decompose(pattern: bytes):
    """Top-level concatenation items: [(group number | None, RegLan)], or None when the top level is not a plain sequence.
    Look-arounds / anchors at top level contribute nothing.  Used for the linear decomposition contract
    group(0) == item_0 . item_1 ... with group(g) == the item that is capture group g."""
    p = parse(pattern)
    out = []
    groups = {}
    for op, av in p.tree:
        if op in (C.AT, C.ASSERT, C.ASSERT_NOT):
            continue
        gid = None
        flags = p.flags
        if op is C.SUBPATTERN and av[0] is not None:
            gid = av[0]
        r = _item_to_re(op, av, flags, groups, True)
        out.append((gid, r, (op, av)))
    return out, groups


def toplevel_optional_groups(pattern: bytes):
    """Group numbers that sit under an optional / repeated / alternative construct (may not participate)."""
    p = parse(pattern)
    maybe = set()

    def walk(seq, under):
        for op, av in seq:
            if op is C.SUBPATTERN:
                if av[0] is not None and under:
                    maybe.add(av[0])
                walk(av[3], under)
            elif op is C.BRANCH:
                for s in av[1]:
                    walk(s, True)
            elif op in (C.MAX_REPEAT, C.MIN_REPEAT):
                lo, hi, sub = av
                walk(sub, under or lo == 0 or True if lo == 0 else under)
            elif op in (C.ASSERT, C.ASSERT_NOT):
                walk(av[1], True)

    walk(p.tree, False)
    return maybe
