"""Run-time meanings of the specification vocabulary, so that @spec functions and contract clauses are executable
on real objects (bounded stand-ins, counterexample replay)."""
from __future__ import annotations

import ast


def nchildren(n):
    return len(n.children)


def child_at(n, k):
    return n.children[k]


def forall(rng, f):
    if isinstance(rng, tuple):
        import itertools

        return all(f(*xs) for xs in itertools.product(*rng))
    return all(f(x) for x in rng)


def exists(rng, f):
    if isinstance(rng, tuple):
        import itertools

        return any(f(*xs) for xs in itertools.product(*rng))
    return any(f(x) for x in rng)


def iff(a, b):
    return bool(a) == bool(b)


def bytes_of(xs):
    return bytes(xs) if xs and isinstance(xs[0], int) else b"".join(xs)


def rev(b):
    return b[::-1]


def lower(b):
    return b.lower()


def xor(a, b):
    return a ^ b


class _ImpliesRewriter(ast.NodeTransformer):
    def visit_Call(self, node):
        self.generic_visit(node)
        if isinstance(node.func, ast.Name) and node.func.id == "implies" and len(node.args) == 2:
            return ast.BoolOp(op=ast.Or(), values=[ast.UnaryOp(op=ast.Not(), operand=node.args[0]), node.args[1]])
        return node


def compile_clause(expr: str):
    """Contract clause -> code object; `implies(a, b)` becomes lazy (`not a or b`)."""
    tree = ast.parse(expr.strip(), mode="eval")
    tree = ast.fix_missing_locations(_ImpliesRewriter().visit(tree))
    return compile(tree, "<contract>", "eval")


def eval_clause(expr: str, env: dict):
    g = dict(globals())
    from .contract import SPECS

    g.update(SPECS)
    g.update(env)
    return eval(compile_clause(expr), g)


def latin1_upper(v):
    return chr(v).isupper()


def latin1_lower(v):
    return chr(v).islower()


def nmatches(pat, data):
    """The number of matches re.finditer(pat, data) really produces (the library's `regex` module, as the code uses)."""
    try:
        import regex as _re
    except ImportError:  # pragma: no cover
        import re as _re
    return sum(1 for _ in _re.finditer(pat, data))
