"""Run the VC generator over a set of contracts and discharge the obligations."""
from __future__ import annotations

import importlib
import os
import sys
import time
import traceback

from . import solve
from .contract import CONTRACTS
from .exec import Exec
from .values import AnchorMismatch, Unsupported


SRC = os.environ.get("VERIF_SRC", "/repo/src")
if SRC not in sys.path:
    sys.path.insert(0, SRC)  # the tree under verification (a scratch copy when testing the machinery)


def _spec_digest():
    """Digest of everything a formula's meaning depends on besides its own text: the contract files (recursive specification functions are
    referred to by name) and the generator itself.  Part of every cache key: editing any of these files empties the cache in effect."""
    import glob
    import hashlib

    root = os.path.dirname(os.path.dirname(os.path.abspath(__file__)))
    h = hashlib.sha256()
    for f in sorted(glob.glob(os.path.join(root, "contracts", "*.py")) + glob.glob(os.path.join(root, "pyvc", "*.py"))):
        h.update(f.encode())
        h.update(open(f, "rb").read())
    return h.digest()


SPEC_DIGEST = _spec_digest()


def load_contracts():
    import pkgutil

    import contracts

    for m in pkgutil.iter_modules(contracts.__path__):
        importlib.import_module("contracts." + m.name)


def filtered(c, exclude):
    """A copy of the contract without the loop clauses / ghosts whose names start with one of `exclude`."""
    import copy

    if not exclude:
        return c
    c2 = copy.copy(c)
    c2.loops = {}
    drop = lambda nm: any(nm.startswith(p) for p in exclude)  # noqa: E731
    for k, lp in c.loops.items():
        l2 = copy.copy(lp)
        l2.inv = {n: e for n, e in lp.inv.items() if not drop(n)}
        l2.transition = {n: e for n, e in lp.transition.items() if not drop(n)}
        l2.ghosts = {n: g for n, g in lp.ghosts.items() if not drop(n)}
        l2.hints = [h for h in lp.hints if not drop(h.split(":")[0].strip())]
        l2.latch_hints = [h for h in lp.latch_hints if not drop(h.split(":")[0].strip())]
        l2.cut = [c_ for c_ in lp.cut if not drop(c_)]
        c2.loops[k] = l2
    c2.ensures = {n: e for n, e in c.ensures.items() if not drop(n)}
    return c2


def generate_lemmas(names):
    from .contract import LEMMAS
    from .lemma import lemma_obligations

    from .contract import MODEL_LEMMAS
    from .exec import Obligation

    out = []
    for n in names:
        if n in MODEL_LEMMAS:
            for suffix, hyps, goal in MODEL_LEMMAS[n]():
                out.append(Obligation(f"lemma/{n}/{suffix}", list(hyps), goal, "lemma." + n, "lemma", 0, "unsat", "consequence of the stated contract of a builtin model", {}))
            continue
        if LEMMAS[n].trusted:
            continue  # an axiom about a library operation: listed among the assumptions, not proved
        out.extend(lemma_obligations(LEMMAS[n]))
    return out


def generate(qualnames, tier="quick", exclude=(), carves=()):
    """-> (obligations, per_function_info)"""
    obligations, info = [], {}
    used_lemmas = set()
    for q in qualnames:
        if q not in CONTRACTS:
            info[q] = {"status": "anchor-mismatch", "reason": "no contract registered"}
            continue
        c = filtered(CONTRACTS[q], exclude)
        t0 = time.time()
        ex = None
        try:
            from . import exec as _exec_mod
            from . import values as _values_mod

            _values_mod._counter[0] = 0  # fresh-symbol numbering restarts per function: the obligations of a function do not depend on which other
            _exec_mod._idc[0] = 0        # functions were generated before it (stable names, stable cache keys)
            ex = Exec(q, c, tier)
            ex.carves = list(carves)
            obs = ex.run()
            info[q] = {"status": "ok", "obligations": len(obs), "gen_s": round(time.time() - t0, 3), "assumed": sorted(ex.assumed), "notes": ex.notes,
                       "lemmas": sorted(getattr(ex, "used_lemmas", ()))}
            obligations.extend(obs)
            for ln in sorted(getattr(ex, "used_lemmas", ())):
                if ln not in used_lemmas:
                    used_lemmas.add(ln)
                    obligations.extend(generate_lemmas([ln]))  # a lemma whose instance is assumed is proved in the same run
        except Unsupported as e:
            info[q] = {"status": "unsupported", "reason": str(e)}
            # obligations that are violations by themselves (a store to module state / to the scanner object) were
            # established before the unsupported construct was met: they are kept
            import z3 as _z3

            for o_ in getattr(ex, "obligations", []):
                if o_.kind == "frame/write" and _z3.is_false(o_.goal):
                    o_.hyps = []
                    obligations.append(o_)
            if os.environ.get("VERIF_DEBUG"):
                traceback.print_exc()
        except AnchorMismatch as e:
            info[q] = {"status": "anchor-mismatch", "reason": str(e)}
        except Exception as e:  # noqa: BLE001
            info[q] = {"status": "error", "reason": f"{type(e).__name__}: {e}", "trace": traceback.format_exc()}
    seen_lemma, uniq = set(), []
    for o in obligations:  # a lemma used by several functions (or by another lemma) is proved once
        if o.kind == "lemma":
            if o.name in seen_lemma:
                continue
            seen_lemma.add(o.name)
        uniq.append(o)
    return uniq, info


def run(qualnames, timeout_s=10.0, seed=0, verbose=False):
    obs, info = generate(qualnames)
    res = solve.discharge(obs, timeout_s, seed)
    if verbose:
        for o, r in zip(obs, res):
            print(f"{r['verdict']:9s} {r.get('time', 0):6.2f}s  {o.name}")
    return obs, res, info
