"""Discharge obligations: one forked child per obligation (hard-killed at the budget), up to NPROC at a time.

Verdicts per obligation: 'proved' (unsat of hyps & not goal), 'refuted' (sat, with a model), 'unknown', 'timeout',
'error'.  For vacuity obligations (expect == 'sat'): 'ok' when satisfiable, 'vacuous' when unsat.
unknown / timeout / error are never turned into a violation.
"""
from __future__ import annotations

import json
import os
import select
import signal
import time

import z3

NPROC = int(os.environ.get("VERIF_NPROC", "16"))


PORTFOLIO = [
    # (abstract strings?, options, share of the budget)
    (True, {"smt.mbqi": False}, 0.3),
    (True, {"smt.qi.eager_threshold": 100.0}, 0.1),
    (True, {}, 0.1),
    (True, {"smt.mbqi": False, "smt.qi.eager_threshold": 100.0}, 0.1),
    (False, {}, 0.2),
    (False, {"smt.qi.eager_threshold": 100.0}, 0.1),
    (False, {"smt.mbqi": False}, 0.1),
]


def _solve_one(ob, timeout_ms, seed):
    t_start = time.time()
    if ob.expect == "sat":
        # vacuity: the hypotheses must not be refutable (a short E-matching attempt; `unknown` = not shown vacuous)
        s = z3.Solver()
        s.set("timeout", min(timeout_ms, 2000))
        s.set("smt.mbqi", False)
        for h in ob.hyps:
            s.add(h)
        r = s.check()
        return {"time": time.time() - t_start, "verdict": {"sat": "ok", "unsat": "vacuous"}.get(str(r), "ok-unknown"), "backend": "z3"}
    from .abstract import abstract_query

    absq = None
    abs_tried = False
    last = {"verdict": "unknown", "reason": "portfolio exhausted"}
    for use_abs, opts, share in PORTFOLIO:
        if use_abs:
            if not abs_tried:
                absq = abstract_query(ob.hyps, ob.goal)
                abs_tried = True
            if absq is None:
                continue
        s = z3.Solver()
        s.set("timeout", max(500, int(timeout_ms * share)))
        if seed:
            s.set("random_seed", seed)
        for k, v in opts.items():
            s.set(k, v)
        if use_abs:
            s.add(*absq)
        else:
            for h in ob.hyps:
                s.add(h)
            s.add(z3.Not(ob.goal))
        r = s.check()
        cfg = ("z3-euf(strings abstracted)" if use_abs else "z3") + (" " + ",".join(f"{k}={v}" for k, v in opts.items()) if opts else "")
        if r == z3.unsat:
            return {"verdict": "proved", "time": time.time() - t_start, "backend": cfg}
        if r == z3.sat and not use_abs:
            out = {"verdict": "refuted", "time": time.time() - t_start, "backend": cfg}
            m = s.model()
            mv = {}
            for k, v in ob.model_vars.items():
                try:
                    mv[k] = model_value(m, v)
                except Exception as e:  # noqa: BLE001
                    mv[k] = f"<{type(e).__name__}>"
            out["model"] = mv
            return out
        if r == z3.unknown and not use_abs:
            last = {"verdict": "unknown", "reason": s.reason_unknown(), "backend": cfg}
    last["time"] = time.time() - t_start
    return last


def model_value(m, v):
    from .values import VBool, VBytes, VInt, VList, VRef, VStr, VTuple, z3_to_bytes

    ev = lambda t: m.eval(t, model_completion=True)  # noqa: E731
    if isinstance(v, (VInt, VRef)):
        return ev(v.z).as_long()
    if isinstance(v, VBool):
        return z3.is_true(ev(v.z))
    if isinstance(v, VBytes):
        return {"bytes": z3_to_bytes(ev(v.z)).hex()}
    if isinstance(v, VStr):
        return {"str": z3_to_bytes(ev(v.z)).decode("latin-1")}
    if isinstance(v, VList):
        n = ev(v.n).as_long()
        n = max(0, min(n, 64))
        items = []
        for i in range(n):
            e = ev(v.arr[i])
            if v.ek in ("int", "ref"):
                items.append(e.as_long())
            else:
                items.append({"bytes": z3_to_bytes(e).hex()})
        return {"list": items}
    if isinstance(v, VTuple):
        return [model_value(m, x) for x in v.items]
    if z3.is_expr(v):
        e = ev(v)
        if z3.is_int_value(e):
            return e.as_long()
        if z3.is_string_value(e):
            return {"bytes": z3_to_bytes(e).hex()}
        return str(e)
    return str(v)


def discharge(obligations, timeout_s=10.0, seed=0, progress=None):
    """Returns list of result dicts aligned with `obligations`."""
    results = [None] * len(obligations)
    pending = list(range(len(obligations)))
    running = {}  # pid -> (idx, fd, deadline, t0)
    hard = timeout_s + 5.0
    while pending or running:
        while pending and len(running) < NPROC:
            idx = pending.pop(0)
            r, w = os.pipe()
            pid = os.fork()
            if pid == 0:
                os.close(r)
                try:
                    res = _solve_one(obligations[idx], int(timeout_s * 1000), seed)
                except BaseException as e:  # noqa: BLE001
                    res = {"verdict": "error", "reason": f"{type(e).__name__}: {e}", "time": 0.0}
                try:
                    os.write(w, json.dumps(res).encode())
                finally:
                    os._exit(0)
            os.close(w)
            running[pid] = (idx, r, time.time() + hard, time.time())
        if not running:
            continue
        fds = [v[1] for v in running.values()]
        ready, _, _ = select.select(fds, [], [], 0.2)
        now = time.time()
        for pid, (idx, fd, deadline, t0) in list(running.items()):
            if fd in ready:
                chunks = []
                while True:
                    b = os.read(fd, 1 << 16)
                    if not b:
                        break
                    chunks.append(b)
                os.close(fd)
                try:
                    os.waitpid(pid, 0)
                except ChildProcessError:
                    pass
                del running[pid]
                try:
                    results[idx] = json.loads(b"".join(chunks).decode())
                except Exception:  # noqa: BLE001
                    results[idx] = {"verdict": "error", "reason": "no result from solver process", "time": now - t0}
                if progress:
                    progress(idx, results[idx])
            elif now > deadline:
                try:
                    os.kill(pid, signal.SIGKILL)
                    os.waitpid(pid, 0)
                except (ProcessLookupError, ChildProcessError):
                    pass
                os.close(fd)
                del running[pid]
                results[idx] = {"verdict": "timeout", "time": now - t0}
                if progress:
                    progress(idx, results[idx])
    return results
