"""Discharge obligations: one forked child per obligation (hard-killed at the budget), up to NPROC at a time.

Verdicts per obligation: 'proved' (unsat of hyps & not goal), 'refuted' (sat, with a model), 'unknown', 'timeout',
'error'.  For vacuity obligations (expect == 'sat'): 'ok' when satisfiable, 'vacuous' when unsat.
unknown / timeout / error are never turned into a violation.
"""
from __future__ import annotations

import hashlib
import json
import os
import re
import select
import signal
import time

import z3

NPROC = int(os.environ.get("VERIF_NPROC", str(min(16, os.cpu_count() or 4))))


PORTFOLIO = [
    # (abstract strings?, options, share of the budget)
    (True, {"smt.mbqi": False}, 0.25),
    (True, {"smt.mbqi": False, "smt.qi.eager_threshold": 100.0}, 0.2),
    (True, {"smt.qi.eager_threshold": 100.0}, 0.1),
    (True, {}, 0.1),
    (False, {}, 0.15),
    (False, {"smt.qi.eager_threshold": 100.0}, 0.1),
    (False, {"smt.mbqi": False}, 0.1),
]


def _solve_one(ob, timeout_ms, seed):
    t_start = time.time()
    if ob.expect == "sat":
        # vacuity: the hypotheses must not be refutable (a short E-matching attempt; `unknown` = not shown vacuous)
        s = z3.Solver()
        s.set("timeout", min(timeout_ms, 2000))
        s.set("smt.mbqi", False)
        for h in ob.hyps:
            s.add(h)
        r = s.check()
        return {"time": time.time() - t_start, "verdict": {"sat": "ok", "unsat": "vacuous"}.get(str(r), "ok-unknown"), "backend": "z3"}
    from .abstract import abstract_query

    absq = None
    abs_tried = False
    last = {"verdict": "unknown", "reason": "portfolio exhausted"}
    portfolio = PORTFOLIO
    ground = not _has_quantifier(ob.hyps + [ob.goal])
    pref = getattr(ob, "prefer", "") or ""
    if pref.startswith("z3-euf(strings abstracted)") and "cone" not in pref and "quantifier-free" not in pref:
        # learnt on the unchanged tree: this obligation was found by a late portfolio entry - try that entry first
        opts_ = {}
        for kv in pref[len("z3-euf(strings abstracted)"):].replace("(peeled)", "").strip().split(","):
            k_, _, v_ = kv.strip().partition("=")
            if k_ == "smt.mbqi":
                opts_[k_] = v_ == "True"
            elif k_ == "smt.qi.eager_threshold":
                opts_[k_] = float(v_)
        qa_ = abstract_query(ob.hyps, ob.goal)
        if qa_ is not None:
            s = z3.Solver()
            s.set("timeout", max(1000, int(timeout_ms * 0.4)))
            if seed:
                s.set("random_seed", seed)
            for k_, v_ in opts_.items():
                s.set(k_, v_)
            s.add(*qa_)
            if s.check() == z3.unsat:
                return {"verdict": "proved", "time": time.time() - t_start, "backend": "z3-euf(strings abstracted) " + ",".join(f"{k_}={v_}" for k_, v_ in opts_.items())}
    rsyms = _rec_symbols(ob.goal)
    if rsyms:
        # the goal speaks about recursive specification functions: first try with the hypotheses that mention one of them only (lemma instances,
        # callee postconditions) - with everything else present, unfolding the definitions and instantiating frames feed each other without end
        rel = [h for h in ob.hyps if _rec_symbols(h) & rsyms]
        if rel and len(rel) < len(ob.hyps):
            for opts_ in ({"smt.mbqi": False}, {}):
                s = z3.Solver()
                s.set("timeout", max(1000, int(timeout_ms * 0.05)))
                for k_, v_ in opts_.items():
                    s.set(k_, v_)
                for h in rel:
                    s.add(h)
                s.add(z3.Not(ob.goal))
                if s.check() == z3.unsat:
                    return {"verdict": "proved", "time": time.time() - t_start, "backend": "z3 (hypotheses about the goal's specification functions only)"}
    if not ground:
        # cone of influence for quantified queries too: hypotheses that share no symbol with the goal even transitively (two rounds, applications of
        # uninterpreted functions counted as single symbols) only slow E-matching down (E4-decoded-iff: 0.1 s without three unrelated ones, 10 s with)
        rel = _relevant(ob.hyps, ob.goal, 2)
        if 0 < len(rel) < len(ob.hyps):
            qc = abstract_query(rel, ob.goal)
            if qc is not None:
                s = z3.Solver()
                s.set("timeout", max(1000, int(timeout_ms * 0.15)))
                s.set("smt.mbqi", False)
                s.add(*qc)
                if s.check() == z3.unsat:
                    return {"verdict": "proved", "time": time.time() - t_start, "backend": "z3-euf(strings abstracted) smt.mbqi=False, cone of influence"}
    if not ground and not _has_quantifier([ob.goal]):
        # a quantifier-free goal (typically a peeled last element).  First the usual E-matching attempt on everything, then the
        # goal from the quantifier-free hypotheses alone (dropping hypotheses is sound for proving): EUF, then native strings.
        from .abstract import abstract_query as _aq

        gh = [h for h in ob.hyps if not _has_quantifier([h])]
        qa = _aq(gh, ob.goal)
        if qa is not None:
            s = z3.Solver()
            s.set("timeout", max(1000, int(timeout_ms * 0.05)))
            s.add(*qa)
            if s.check() == z3.unsat:
                return {"verdict": "proved", "time": time.time() - t_start, "backend": "z3-euf (quantifier-free hypotheses, strings abstracted)"}
        q0 = _aq(ob.hyps, ob.goal)
        # order: a SHORT E-matching attempt (most proofs take well under a second), then the native solvers on the cone of quantifier-free hypotheses
        # (string / recursive-definition goals such as flatten's prefix clause are found there in about a second), then the long E-matching attempts
        if q0 is not None:
            s = z3.Solver()
            s.set("timeout", max(1000, int(timeout_ms * 0.06)))
            s.set("smt.mbqi", False)
            s.add(*q0)
            if s.check() == z3.unsat:
                return {"verdict": "proved", "time": time.time() - t_start, "backend": "z3-euf(strings abstracted) smt.mbqi=False"}
        for depth, share in ((0, 0.08), (2, 0.08)):
            rel = _relevant(gh, ob.goal, depth)
            s = z3.Solver()
            s.set("timeout", max(1000, int(timeout_ms * share)))
            for h in rel:
                s.add(h)
            s.add(z3.Not(ob.goal))
            if s.check() == z3.unsat:
                return {"verdict": "proved", "time": time.time() - t_start, "backend": f"z3 (quantifier-free hypotheses, cone depth {depth})"}
        if q0 is not None:
            for opts_, share_ in (({"smt.mbqi": False}, 0.25), ({"smt.mbqi": False, "smt.qi.eager_threshold": 100.0}, 0.15)):
                s = z3.Solver()
                s.set("timeout", max(1000, int(timeout_ms * share_)))
                for k_, v_ in opts_.items():
                    s.set(k_, v_)
                s.add(*q0)
                if s.check() == z3.unsat:
                    return {"verdict": "proved", "time": time.time() - t_start, "backend": "z3-euf(strings abstracted) " + ",".join(f"{k_}={v_}" for k_, v_ in opts_.items())}
        rel = _relevant(gh, ob.goal, 2)
        if _has_strings(rel + [ob.goal]):
            # z3's sequence solver is unstable on word equations with optional pieces; cvc5 decides them (child process under a hard kill)
            r5 = _cvc5(ob, max(1.0, timeout_ms * 0.15 / 1000.0), hyps=rel, only_unsat=True)
            if r5 is not None:
                r5["time"] = time.time() - t_start
                return r5
        portfolio = [(False, {}, 0.1), (False, {"smt.mbqi": False}, 0.1)]
    if ground:
        # cone of influence: hypotheses that (transitively) share a constant with the goal; fewer hypotheses can only
        # make proving harder, never unsound - a `sat` answer of the reduced query is ignored
        for depth, share in ((0, 0.3), (1, 0.1), (99, 0.15)):
            rel = _relevant(ob.hyps, ob.goal, depth)
            if len(rel) < len(ob.hyps):
                s = z3.Solver()
                s.set("timeout", max(1000, int(timeout_ms * share)))
                for h in rel:
                    s.add(h)
                s.add(z3.Not(ob.goal))
                if s.check() == z3.unsat:
                    return {"verdict": "proved", "time": time.time() - t_start, "backend": f"z3 (cone of influence, depth {depth})"}
    if ground:
        # ground query (typically regular-language membership): the native string solver first, with most of the budget
        portfolio = [(False, {}, 0.45), (True, {"smt.mbqi": False}, 0.05), ("cvc5", {}, 0.5)]
        if ob.kind == "lemma" and ob.note.startswith("consequence of the stated contract"):
            # model lemmas are word equations with optional pieces: z3's sequence solver runs into its time-out on them, cvc5 decides them at once
            portfolio = [("cvc5", {}, 0.5), (False, {}, 0.45)]
    for use_abs, opts, share in portfolio:
        if use_abs == "cvc5":
            r5 = _cvc5(ob, max(1.0, timeout_ms * share / 1000.0))
            if r5 is not None:
                r5["time"] = time.time() - t_start
                return r5
            continue
        if use_abs:
            if not abs_tried:
                absq = abstract_query(ob.hyps, ob.goal)
                abs_tried = True
            if absq is None:
                continue
        s = z3.Solver()
        s.set("timeout", max(500, int(timeout_ms * share)))
        if seed:
            s.set("random_seed", seed)
        for k, v in opts.items():
            s.set(k, v)
        if use_abs:
            s.add(*absq)
        else:
            for h in ob.hyps:
                s.add(h)
            s.add(z3.Not(ob.goal))
        r = s.check()
        cfg = ("z3-euf(strings abstracted)" if use_abs else "z3") + (" " + ",".join(f"{k}={v}" for k, v in opts.items()) if opts else "")
        if r == z3.unsat:
            return {"verdict": "proved", "time": time.time() - t_start, "backend": cfg}
        if r == z3.sat and not use_abs:
            out = {"verdict": "refuted", "time": time.time() - t_start, "backend": cfg}
            m = s.model()
            mv = {}
            for k, v in ob.model_vars.items():
                try:
                    mv[k] = model_value(m, v)
                except Exception as e:  # noqa: BLE001
                    mv[k] = f"<{type(e).__name__}>"
            out["model"] = mv
            return out
        if r == z3.unknown and not use_abs:
            last = {"verdict": "unknown", "reason": s.reason_unknown(), "backend": cfg}
    last["time"] = time.time() - t_start
    return last


def _cvc5(ob, timeout_s, hyps=None, only_unsat=False):
    """Ground string queries z3 left open: the cvc5 CLI in a child process under a hard kill (it ignores --tlimit)."""
    import subprocess
    import tempfile

    if not os.path.exists("/usr/bin/cvc5"):
        return None
    s = z3.Solver()
    for h in ob.hyps if hyps is None else hyps:
        if _mentions_last_index(h):
            continue  # cvc5 1.0.3 has no last-index-of: the hypothesis is dropped (sound when proving; a `sat` answer is then not used)
        s.add(h)
    if _mentions_last_index(ob.goal):
        return None
    only_unsat = only_unsat or any(_mentions_last_index(h) for h in (ob.hyps if hyps is None else hyps))
    s.add(z3.Not(ob.goal))
    from .values import VBytes, VInt, VStr

    names = {k: v.z for k, v in ob.model_vars.items() if isinstance(v, (VBytes, VStr, VInt)) and z3.is_const(v.z) and v.z.decl().kind() == z3.Z3_OP_UNINTERPRETED}
    txt = "(set-logic ALL)\n" + s.to_smt2()
    txt = txt.replace("(check-sat)", "(check-sat)\n" + "".join(f"(get-value ({z3.Z3_ast_to_string(v.ctx_ref(), v.as_ast())}))\n" for v in names.values()))
    with tempfile.NamedTemporaryFile("w", suffix=".smt2", delete=False) as f:
        f.write(txt)
        path = f.name
    try:
        p = subprocess.run(["timeout", "-s", "KILL", str(int(timeout_s) + 1), "/usr/bin/cvc5", "--strings-exp", "--produce-models", path], capture_output=True, text=True)
        out = p.stdout.strip().splitlines()
    except Exception:  # noqa: BLE001
        return None
    finally:
        try:
            os.unlink(path)
        except OSError:
            pass
    if not out:
        return None
    if out[0] == "unsat":
        return {"verdict": "proved", "backend": "cvc5 1.0.3 --strings-exp" + (" (quantifier-free hypotheses)" if hyps is not None else "")}
    if only_unsat:
        return None
    if out[0] == "sat":
        mv = {}
        for (k, v), line in zip(names.items(), out[1:]):
            m = re.match(r'^\(\((\S+) (.*)\)\)$', line.strip())
            if not m:
                continue
            val = m.group(2)
            if val.startswith('"'):
                mv[k] = {"bytes": _smt_string_to_bytes(val[1:-1]).hex()}
            else:
                try:
                    mv[k] = int(val.replace("(- ", "-").replace(")", ""))
                except ValueError:
                    mv[k] = val
        return {"verdict": "refuted", "backend": "cvc5 1.0.3 --strings-exp", "model": mv}
    return None


def _smt_string_to_bytes(s):
    out = bytearray()
    i = 0
    while i < len(s):
        if s.startswith("\\u{", i):
            j = s.index("}", i)
            out.append(int(s[i + 3 : j], 16) & 0xFF)
            i = j + 1
        elif s.startswith('""', i):
            out.append(34)
            i += 2
        else:
            out.append(ord(s[i]) & 0xFF)
            i += 1
    return bytes(out)


def _consts(e, memo, opaque=False):
    """Constants of a term.  With `opaque`, an application of an uninterpreted function is ONE symbol (its arguments are not visited):
    two hypotheses about SPLIT(data, sep)[i] share that symbol, but neither is thereby related to every hypothesis about `data`."""
    k = (e.get_id(), opaque)
    if k in memo:
        return memo[k]
    out = set()
    stack = [e]
    seen = set()
    while stack:
        x = stack.pop()
        if x.get_id() in seen:
            continue
        seen.add(x.get_id())
        if z3.is_app(x) and x.decl().kind() == z3.Z3_OP_UNINTERPRETED:
            if x.num_args() == 0:
                out.add(x.decl().name())
                continue
            if opaque:
                out.add(f"{x.decl().name()}#{x.get_id()}")
                continue
        stack.extend(x.children())
    memo[k] = out
    return out


def _relevant(hyps, goal, depth=99):
    """Hypotheses within `depth` sharing steps of the goal's symbols (depth 0: those that share a symbol with the goal).  Below depth 99
    applications of uninterpreted functions count as single symbols."""
    memo = {}
    opaque = depth < 99
    sym = set(_consts(goal, memo, opaque))
    if not sym and hyps:
        sym = set(_consts(hyps[-1], memo, opaque))  # goal `False` (an infeasible raising path): seed with the raise condition
    hs = [(h, _consts(h, memo, opaque)) for h in hyps]
    chosen = [False] * len(hs)
    for rnd in range(depth + 1):
        new = set()
        for k, (h, cs) in enumerate(hs):
            if not chosen[k] and (cs & sym or not cs):
                chosen[k] = True
                new |= cs
        if new <= sym:
            break
        sym |= new
    return [h for (h, _), c in zip(hs, chosen) if c]


_rec_memo = {}


def _rec_symbols(e):
    """Names of the recursive specification functions a term mentions."""
    k = e.get_id()
    hit = _rec_memo.get(k)
    if hit is not None and hit[0].eq(e):
        return hit[1]
    out, seen, stack = set(), set(), [e]
    while stack:
        x = stack.pop()
        if x.get_id() in seen:
            continue
        seen.add(x.get_id())
        if z3.is_quantifier(x):
            stack.append(x.body())
            continue
        if z3.is_app(x):
            if x.decl().kind() == z3.Z3_OP_RECURSIVE:
                out.add(x.decl().name())
            stack.extend(x.children())
    _rec_memo[k] = (e, out)
    return out


def _mentions_last_index(e):
    seen = set()
    stack = [e]
    while stack:
        x = stack.pop()
        k = x.get_id()
        if k in seen:
            continue
        seen.add(k)
        if z3.is_app(x) and x.decl().kind() == z3.Z3_OP_SEQ_LAST_INDEX:
            return True
        stack.extend(x.children())
    return False


def _has_strings(exprs):
    seen = set()
    stack = list(exprs)
    while stack:
        e = stack.pop()
        k = e.get_id()
        if k in seen:
            continue
        seen.add(k)
        if z3.is_app(e) and e.decl().kind() in (z3.Z3_OP_SEQ_CONCAT, z3.Z3_OP_SEQ_EXTRACT, z3.Z3_OP_SEQ_IN_RE, z3.Z3_OP_SEQ_CONTAINS, z3.Z3_OP_SEQ_AT, z3.Z3_OP_SEQ_PREFIX, z3.Z3_OP_SEQ_SUFFIX, z3.Z3_OP_SEQ_INDEX):
            return True
        stack.extend(e.children())
    return False


def _has_quantifier(exprs):
    seen = set()
    stack = list(exprs)
    while stack:
        e = stack.pop()
        k = e.get_id()
        if k in seen:
            continue
        seen.add(k)
        if z3.is_quantifier(e):
            return True
        stack.extend(e.children())
    return False


def model_value(m, v):
    from .values import VBool, VBytes, VInt, VList, VRef, VStr, VTuple, z3_to_bytes

    ev = lambda t: m.eval(t, model_completion=True)  # noqa: E731
    if isinstance(v, (VInt, VRef)):
        return ev(v.z).as_long()
    if isinstance(v, VBool):
        return z3.is_true(ev(v.z))
    if isinstance(v, VBytes):
        return {"bytes": z3_to_bytes(ev(v.z)).hex()}
    if isinstance(v, VStr):
        return {"str": z3_to_bytes(ev(v.z)).decode("latin-1")}
    if isinstance(v, VList):
        n = ev(v.n).as_long()
        n = max(0, min(n, 64))
        items = []
        for i in range(n):
            e = ev(v.arr[i])
            if v.ek in ("int", "ref"):
                items.append(e.as_long())
            else:
                items.append({"bytes": z3_to_bytes(e).hex()})
        return {"list": items}
    if isinstance(v, VTuple):
        return [model_value(m, x) for x in v.items]
    if z3.is_expr(v):
        e = ev(v)
        if z3.is_int_value(e):
            return e.as_long()
        if z3.is_string_value(e):
            return {"bytes": z3_to_bytes(e).hex()}
        return str(e)
    return str(v)


CACHE_DIR = os.path.join(os.path.dirname(os.path.dirname(os.path.abspath(__file__))), ".cache", "unsat")
USE_CACHE = [os.environ.get("VERIF_NOCACHE", "") == ""]
_key_memo = {}


def _term_digest(x):
    """sha256 of the term's s-expression plus the sorts of its uninterpreted symbols (memoised per term; the terms are kept alive by their obligations)."""
    k = x.get_id()
    hit = _key_memo.get(k)
    if hit is not None and hit[0].eq(x):
        return hit[1]
    h = hashlib.sha256(x.sexpr().encode())
    decls = set()
    stack, seen = [x], set()
    while stack:
        y = stack.pop()
        if y.get_id() in seen:
            continue
        seen.add(y.get_id())
        if z3.is_app(y) and y.decl().kind() in (z3.Z3_OP_UNINTERPRETED, z3.Z3_OP_RECURSIVE):
            d = y.decl()
            decls.add(f"{d.name()}:{[str(d.domain(i)) for i in range(d.arity())]}->{d.range()}")
            if d.kind() == z3.Z3_OP_RECURSIVE:
                decls.add("<recursive definition>")  # its meaning lives outside the term: see query_key
        if z3.is_quantifier(y):
            stack.append(y.body())
        else:
            stack.extend(y.children())
    h.update("\n".join(sorted(decls)).encode())
    dg = h.digest()
    _key_memo[k] = (x, dg, "<recursive definition>" in decls)
    return dg


def query_key(ob):
    """Content hash of the whole query (every hypothesis in order, the goal, the sorts of all symbols): two obligations with the same key are the same
    formula, so an `unsat` answer for one is an answer for the other."""
    h = hashlib.sha256()
    rec = False
    for x in list(ob.hyps) + [ob.goal]:
        if x is ob.goal:
            h.update(b"|-")
        h.update(_term_digest(x))
        rec = rec or _key_memo[x.get_id()][2]
    if rec:
        # a recursive specification function is referred to by NAME: the key then also carries the digest of the contract files and of the generator
        from . import driver

        h.update(getattr(driver, "SPEC_DIGEST", b""))
    return h.hexdigest()


def discharge(obligations, timeout_s=10.0, seed=0, progress=None, cache=True):
    """Returns list of result dicts aligned with `obligations`."""
    results = [None] * len(obligations)
    keys = [None] * len(obligations)
    pending = []
    for idx, ob in enumerate(obligations):
        if cache and USE_CACHE[0] and ob.expect == "unsat":
            try:
                keys[idx] = query_key(ob)
            except Exception:  # noqa: BLE001
                keys[idx] = None
            cpath = os.path.join(CACHE_DIR, keys[idx][:2], keys[idx]) if keys[idx] else None
            if cpath and os.path.exists(cpath):
                try:
                    orig = open(cpath).read().strip() or "z3"
                except OSError:
                    orig = "z3"
                # the identical query was discharged by an earlier run: reported under the back end that discharged it, and counted as a cache hit
                results[idx] = {"verdict": "proved", "time": 0.0, "backend": orig, "cached": True}
                continue
        pending.append(idx)
    res_live = _discharge_live(obligations, pending, timeout_s, seed, progress)
    for idx in pending:
        results[idx] = res_live[idx]
        if keys[idx] and results[idx].get("verdict") == "proved":
            d = os.path.join(CACHE_DIR, keys[idx][:2])
            try:
                os.makedirs(d, exist_ok=True)
                with open(os.path.join(d, keys[idx]), "w") as f:
                    f.write(results[idx].get("backend", ""))
            except OSError:
                pass
    return results


def _discharge_live(obligations, pending, timeout_s, seed, progress):
    results = [None] * len(obligations)
    pending = list(pending)
    running = {}  # pid -> (idx, fd, deadline, t0)
    hard = timeout_s * 1.4 + 5.0  # the preferred-entry attempt may add up to 40 % on top of the portfolio's shares
    while pending or running:
        while pending and len(running) < NPROC:
            idx = pending.pop(0)
            r, w = os.pipe()
            pid = os.fork()
            if pid == 0:
                os.close(r)
                try:
                    res = _solve_one(obligations[idx], int(timeout_s * 1000), seed)
                except BaseException as e:  # noqa: BLE001
                    res = {"verdict": "error", "reason": f"{type(e).__name__}: {e}", "time": 0.0}
                try:
                    os.write(w, json.dumps(res).encode())
                finally:
                    os._exit(0)
            os.close(w)
            running[pid] = (idx, r, time.time() + hard, time.time())
        if not running:
            continue
        fds = [v[1] for v in running.values()]
        ready, _, _ = select.select(fds, [], [], 0.2)
        now = time.time()
        for pid, (idx, fd, deadline, t0) in list(running.items()):
            if fd in ready:
                chunks = []
                while True:
                    b = os.read(fd, 1 << 16)
                    if not b:
                        break
                    chunks.append(b)
                os.close(fd)
                try:
                    os.waitpid(pid, 0)
                except ChildProcessError:
                    pass
                del running[pid]
                try:
                    results[idx] = json.loads(b"".join(chunks).decode())
                except Exception:  # noqa: BLE001
                    results[idx] = {"verdict": "error", "reason": "no result from solver process", "time": now - t0}
                if progress:
                    progress(idx, results[idx])
            elif now > deadline:
                try:
                    os.kill(pid, signal.SIGKILL)
                    os.waitpid(pid, 0)
                except (ProcessLookupError, ChildProcessError):
                    pass
                os.close(fd)
                del running[pid]
                results[idx] = {"verdict": "timeout", "time": now - t0}
                if progress:
                    progress(idx, results[idx])
    return results
