"""Regex / stdlib call models (stage 2).  Placeholders raise Unsupported."""
from __future__ import annotations

from .values import *  # noqa: F403


def obj_method(ex, recv, name, args, kwargs, st):
    raise Unsupported(f"method {name} on {recv}")


def strip_model(ex, recv, args, st):
    raise Unsupported("bytes.strip")


def str_method(ex, recv, name, args, kwargs, st):
    raise Unsupported(f"bytes.{name}")


def minmax(ex, is_max, args, kw, st):
    raise Unsupported("min/max")


def call_py(ex, obj, name, node, st):
    raise Unsupported(f"call of {name}")


def comprehension(ex, node, st, kind):
    raise Unsupported("comprehension")


def match_at(ex, it, i, st):
    raise Unsupported("match iteration")
