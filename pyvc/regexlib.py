"""Models of the `regex` module, of bytes methods that produce lists, of comprehensions, and the assumed contracts
of the standard-library functions the decoders call (DESIGN.md 4.3, 4.4).  Everything here is TRUSTED BASE; each
assumed contract used by an obligation is recorded in `ex.assumed` and listed in the evidence."""
from __future__ import annotations

import ast

import z3

from . import regex2smt as R2
from .builtins_tbl import sop, uf
from .values import *  # noqa: F403

REGEX_CONTRACT = (
    "regex contract: a match m of P in data has 0 <= m.start() <= m.end() <= len(data), m.group(0) == data[start:end] in L(P°) "
    "(look-arounds/anchors erased), successive finditer matches do not overlap, a participating group g has its span inside the match "
    "and m.group(g) == data[span(g)] in L(sub-pattern g°); WHICH substring is matched (leftmost, greedy) is not specified"
)


# ---------------------------------------------------------------------------------------------- match objects
def _pattern_bytes(ex, v):
    if isinstance(v, VBytes):
        s = z3.simplify(v.z)
        if z3.is_string_value(s):
            return z3_to_bytes(s)
    return None  # a pattern that is not a compile-time constant: only the span part of the regex contract is available


def re_finditer(ex, pat: bytes, data: VBytes, st):
    ex.assumed.add(REGEX_CONTRACT)
    n = fresh("nmatch", I)
    st.assume(n >= 0)
    it = VObj("matchiter", {"n": n, "MS": fresh("MS", ArrII), "ME": fresh("ME", ArrII), "pat": pat, "data": data.z, "groups": {}})
    if hasattr(st, "matchiters"):
        st.matchiters.append((pat, data.z, it))
    return it


def match_at(ex, it, i, st, guard=None):
    a = it.attrs
    ms, me = a["MS"][i], a["ME"][i]
    n = z3.Length(a["data"])
    f = z3.And(0 <= ms, ms <= me, me <= n)
    prev = z3.Implies(i > 0, a["ME"][i - 1] <= ms)
    st.fact(z3.Implies(guard, z3.And(f, prev)) if guard is not None else z3.And(f, prev))
    return VObj("match", {"it": it, "i": i, "guard": guard})


def single_match(ex, pat: bytes, data: VBytes, st, kind, pos=None):
    """re.search / re.match / re.fullmatch -> a match object that may be None."""
    ex.assumed.add(REGEX_CONTRACT)
    truthy = fresh("matched", B)
    it = VObj("matchiter", {"n": z3.IntVal(1), "MS": fresh("MS", ArrII), "ME": fresh("ME", ArrII), "pat": pat, "data": data.z, "groups": {}})
    zero = z3.IntVal(0)
    m = match_at(ex, it, zero, st, guard=truthy)
    m.attrs["_truthy"] = truthy
    m.attrs["_isnone"] = z3.Not(truthy)
    ms, me = it.attrs["MS"][zero], it.attrs["ME"][zero]
    n = z3.Length(data.z)
    if kind == "match":
        if pat is not None and R2.parse(pat).reverse:
            st.fact(z3.Implies(truthy, me == n))  # `regex` (?r): the search runs backwards, match() is anchored at the END
        else:
            p = zero if pos is None else pos
            st.fact(z3.Implies(truthy, ms == p))
    if kind == "fullmatch":
        st.fact(z3.Implies(truthy, z3.And(ms == 0, me == n)))
        if pat is not None and not R2.has_erased(pat):
            lang, _ = R2.to_re(pat)
            st.fact(truthy == z3.InRe(data.z, lang))  # exact for patterns without anchors / look-arounds
    if pos is not None:
        st.fact(z3.Implies(truthy, ms >= pos))
    return m


def _group_arrays(ex, it, g):
    gs = it.attrs["groups"]
    if g not in gs:
        gs[g] = (fresh(f"GS{g}", ArrII), fresh(f"GE{g}", ArrII), fresh(f"GP{g}", z3.ArraySort(I, B)))
    return gs[g]


def _mand(pat, g):
    return g not in R2.toplevel_optional_groups(pat)


def _decomposition(ex, m, st):
    """Linear decomposition contract: when the top level of the pattern is a sequence of items, a match is the
    concatenation of one piece per item (look-arounds / anchors take no bytes); the piece of a fixed-width item has that
    width, and a top-level capture group's span is its piece.  Emitted once per (match iterator, index term)."""
    import re._parser as P

    it, i = m.attrs["it"], m.attrs["i"]
    a = it.attrs
    key = ("decomp", i.get_id())
    if key in a:
        return a[key]
    items, _ = R2.decompose(a["pat"])
    parsed = R2.parse(a["pat"])
    bounds = [a["MS"][i]]
    facts = []
    gmap = {}
    for j, (gid, lang, (op, av)) in enumerate(items):
        lo, hi = P.SubPattern(parsed.tree.state, [(op, av)]).getwidth()
        if j == len(items) - 1:
            nxt = a["ME"][i]
        elif lo == hi:
            nxt = bounds[-1] + lo
        else:
            arr = a.setdefault(("B", j), fresh(f"B{j}", ArrII))
            nxt = arr[i]
        if lo == hi:
            facts.append(nxt == bounds[-1] + lo)
        else:
            facts.append(z3.And(nxt >= bounds[-1] + lo, nxt <= bounds[-1] + min(hi, 10**9)))
        if gid is not None:
            gmap[gid] = (bounds[-1], nxt)
        bounds.append(nxt)
    gd = m.attrs.get("guard")
    f = z3.And(*facts) if facts else z3.BoolVal(True)
    st.fact(z3.Implies(gd, f) if gd is not None else f)
    a[key] = gmap
    ex.assumed.add("regex linear decomposition: a match of a top-level sequence is the concatenation of one piece per item, fixed-width items take exactly their width, a top-level group's span is its piece")
    return gmap


def match_span(ex, m, g, st):
    it, i = m.attrs["it"], m.attrs["i"]
    a = it.attrs
    if g == 0:
        return a["MS"][i], a["ME"][i], z3.BoolVal(True)
    if a["pat"] is not None and not getattr(st, "in_binder", 0):
        try:
            gmap = _decomposition(ex, m, st)
        except Exception:  # noqa: BLE001
            gmap = {}
        if g in gmap and _mand(a["pat"], g):
            GS, GE, GP = _group_arrays(ex, it, g)
            gd = m.attrs.get("guard")
            f = z3.And(GS[i] == gmap[g][0], GE[i] == gmap[g][1])
            st.fact(z3.Implies(gd, f) if gd is not None else f)
    if a["pat"] is None:
        raise Unsupported("group access with a non-constant pattern")
    if g > R2.parse(a["pat"]).ngroups:
        ex.raise_if(st, z3.BoolVal(True), "IndexError", "no such group")
    GS, GE, GP = _group_arrays(ex, it, g)
    part = z3.BoolVal(True) if _mand(a["pat"], g) else GP[i]
    inside = z3.And(a["MS"][i] <= GS[i], GS[i] <= GE[i], GE[i] <= a["ME"][i])
    fact = z3.And(z3.Implies(part, inside), z3.Implies(z3.Not(part), z3.And(GS[i] == -1, GE[i] == -1)))
    gd = m.attrs.get("guard")
    st.fact(z3.Implies(gd, fact) if gd is not None else fact)
    return GS[i], GE[i], part


def match_text(ex, m, g, st):
    it, i = m.attrs["it"], m.attrs["i"]
    a = it.attrs
    s, e, part = match_span(ex, m, g, st)
    txt = z3.SubString(a["data"], s, e - s)
    if not getattr(st, "in_binder", 0):
        # the group text is the slice data[s:e]: link it with the SLICE symbol quantified clauses use
        st.fact(z3.Implies(z3.And(0 <= s, s <= e, e <= z3.Length(a["data"])), uf(ex, "SLICE", S, I, I, S)(a["data"], s, e) == txt))
    if a["pat"] is None:
        st.fact(z3.Length(txt) == e - s)
        return txt, part
    lang, groups = R2.to_re(a["pat"])
    lg = lang if g == 0 else groups.get(g)
    gd = m.attrs.get("guard")
    if lg is not None and not getattr(st, "in_binder", 0):
        f = z3.Implies(part, z3.InRe(txt, lg))
        st.fact(z3.Implies(gd, f) if gd is not None else f)
        st.fact(z3.Implies(part, z3.Length(txt) == e - s))
    return txt, part


def obj_method(ex, recv, name, args, kwargs, st):
    if recv.cls == "match":
        g = 0
        if args:
            if not (isinstance(args[0], VInt) and is_int_const(args[0].z)):
                raise Unsupported("symbolic group number")
            g = int_const(args[0].z)
        if "_isnone" in recv.attrs:
            ex.raise_if(st, recv.attrs["_isnone"], "AttributeError", f"None.{name}")
        if name == "group":
            txt, part = match_text(ex, recv, g, st)
            if z3.is_true(z3.simplify(part)):
                return VBytes(txt)
            return VOpt(z3.Not(part), VBytes(txt))
        if name in ("start", "end", "span"):
            s, e, part = match_span(ex, recv, g, st)
            if name == "start":
                return VInt(s)
            if name == "end":
                return VInt(e)
            return VTuple([VInt(s), VInt(e)])
    raise Unsupported(f"method {name} on {recv}")


# ---------------------------------------------------------------------------------------------- bytes methods producing lists etc.
def strip_model(ex, recv, args, st, side="both"):
    """bytes.strip / lstrip / rstrip(chars): the maximal removal of bytes of `chars` from the chosen end(s)."""
    s = recv.z
    if args and not isinstance(args[0], VNone):
        chars = z3.simplify(args[0].z)
        if not z3.is_string_value(chars):
            raise Unsupported("strip of symbolic character set")
        cs = z3_to_bytes(chars)
    else:
        if recv.kind != "bytes":
            raise Unsupported("str.strip() without arguments (Unicode white space is not modelled)")
        cs = b" \t\n\r\x0b\x0c"
    n = z3.Length(s)
    if not cs:
        return type(recv)(s)
    ex.assumed.add("bytes.strip / lstrip / rstrip(chars): result is a substring data[a:b] whose first and last bytes (at a stripped end) are not in chars and the removed ends are")
    cls = z3.Union(*[z3.Re(z3.StringVal(chr(c))) for c in cs]) if len(cs) > 1 else z3.Re(z3.StringVal(chr(cs[0])))
    r = fresh("stripped", S)
    a = fresh("lstrip", I) if side in ("both", "left") else z3.IntVal(0)
    b = fresh("rstrip", I) if side in ("both", "right") else n
    st.fact(z3.And(0 <= a, a <= b, b <= n, r == z3.SubString(s, a, b - a), z3.Length(r) == b - a))
    if side in ("both", "left"):
        st.fact(z3.InRe(z3.SubString(s, 0, a), z3.Star(cls)))
        st.fact(z3.Implies(b > a, z3.Not(z3.InRe(z3.SubString(r, 0, 1), cls))))
    if side in ("both", "right"):
        st.fact(z3.InRe(z3.SubString(s, b, n - b), z3.Star(cls)))
        st.fact(z3.Implies(b > a, z3.Not(z3.InRe(z3.SubString(r, b - a - 1, 1), cls))))
    if side == "left":
        # nothing left: the whole text consisted of stripped bytes
        st.fact(z3.Implies(a == b, z3.InRe(s, z3.Star(cls))))
    return type(recv)(r)


def _split_positions(s, a0, sep, a1):
    L = z3.Length
    return [L(s) == L(a0) + L(sep) + L(a1), z3.SubString(s, 0, L(a0)) == a0, z3.SubString(s, L(a0), L(sep)) == sep, z3.SubString(s, L(a0) + L(sep), L(a1)) == a1]


def split_index_facts(lst, j, st):
    """Ground positional facts for the pieces 0..j of a separator split (asked for when the code reads pieces[j] with a constant j)."""
    s, sz, off, n = lst.split_positions
    arr = lst.arr
    if not isinstance(j, int):
        # a symbolic index: the piece read lies inside the text, at its offset
        st.fact(z3.Implies(z3.And(0 <= j, j < n), z3.And(off[j] >= 0, off[j] + z3.Length(arr[j]) <= z3.Length(s), arr[j] == z3.SubString(s, off[j], z3.Length(arr[j])))))
        return
    st.fact(z3.Implies(j < n, z3.And(off[j] >= 0, off[j] + z3.Length(arr[j]) <= z3.Length(s))))
    for i in range(min(j, 8) + 1):
        st.fact(z3.Implies(i + 1 < n, z3.And(off[i + 1] == off[i] + z3.Length(arr[i]) + z3.Length(sz), z3.SubString(s, off[i] + z3.Length(arr[i]), z3.Length(sz)) == sz)))
        st.fact(z3.Implies(i < n, z3.And(arr[i] == z3.SubString(s, off[i], z3.Length(arr[i])), z3.Not(z3.Contains(arr[i], sz)))))


def _split_positions_lemma():
    s, a0, sep, a1 = z3.Consts("s a0 sep a1", S)
    return [(str(k), [s == z3.Concat(a0, sep, a1)], g) for k, g in enumerate(_split_positions(s, a0, sep, a1))]


def split_model(ex, recv, name, args, kwargs, st):
    """sep.split / rsplit -> list[bytes] (symbolic): joined by the separator it gives the receiver back; no piece
    contains the separator when there is no maxsplit; with maxsplit=k at most k+1 pieces."""
    s = recv.z
    sep = args[0] if args else kwargs.get("sep")
    maxsplit = args[1] if len(args) > 1 else kwargs.get("maxsplit")
    n = fresh("npieces", I)
    arr = fresh("pieces", ArrIS)
    lst = VList(arr, n, "bytes")
    ex.assumed.add("bytes.split/rsplit: pieces re-joined by the separator give the receiver (piece k at offset OFF[k], consecutive pieces one separator apart, the last piece ends the text); no separator inside a piece (no maxsplit); at most maxsplit+1 pieces; whitespace split drops empty pieces")
    if sep is None or isinstance(sep, VNone):
        # whitespace split: pieces are non-empty and whitespace-free
        st.fact(n >= 0)
        k = fresh("k", I)
        ws = z3.Union(*[z3.Re(z3.StringVal(c)) for c in " \t\n\r\x0b\x0c"])
        nows = z3.Plus(z3.Complement(z3.Concat(z3.Star(z3.Range(chr(0), chr(255))), ws, z3.Star(z3.Range(chr(0), chr(255))))))
        f = uf(ex, "WSPIECE", S, I, S)
        lst.arr = z3.Lambda([k], f(s, k)) if False else arr
        st.fact((n == 0) == z3.InRe(s, z3.Star(ws)))
        if maxsplit is not None:
            st.fact(n <= maxsplit.z + 1)
        # element facts are produced on access (see subscript_list_fact)
        lst.split_info = ("ws", s, None, maxsplit)
        return lst
    sz = sep.z
    st.fact(n >= 1)
    if maxsplit is not None:
        st.fact(n <= maxsplit.z + 1)
        st.fact(z3.Implies(z3.Contains(s, sz), n >= 2) if True else z3.BoolVal(True))
        st.fact(z3.Implies(z3.And(maxsplit.z >= 1, z3.Contains(s, sz)), n >= 2))
        st.fact(z3.Implies(z3.Not(z3.Contains(s, sz)), z3.And(n == 1, arr[0] == s)))
        if is_int_const(maxsplit.z) and int_const(maxsplit.z) == 1:
            st.fact(z3.Implies(n == 2, s == z3.Concat(arr[0], sz, arr[1])))
            st.fact((n == 2) == z3.Contains(s, sz))
            # the same in position form (consequences of the concatenation: model lemma `split-positions`)
            ex.used_lemmas = getattr(ex, "used_lemmas", set()) | {"split-positions"}
            st.fact(z3.Implies(n == 2, z3.And(*_split_positions(s, arr[0], sz, arr[1]))))
            if name == "rsplit":
                st.fact(z3.Implies(n == 2, z3.Not(z3.Contains(arr[1], sz))))
                li = z3.LastIndexOf(s, sz)
                st.fact(z3.Implies(n == 2, z3.And(li >= 0, li == z3.Length(arr[0]))))  # links rsplit with bytes.rfind
            else:
                st.fact(z3.Implies(n == 2, z3.Not(z3.Contains(arr[0], sz))))
    else:
        # without maxsplit the pieces are a FUNCTION of (text, separator): the same symbols in code and in contracts
        cnt = uf(ex, "COUNT", S, S, I)(s, sz)
        arr = uf(ex, "SPLIT_" + name.upper(), S, S, ArrIS)(s, sz)
        n = cnt + 1
        lst = VList(arr, n, "bytes")
        st.fact(cnt >= 0)
        st.fact((cnt == 0) == z3.Not(z3.Contains(s, sz)))
        st.fact(z3.Implies(n == 1, arr[0] == s))
        # the first piece is the text before the first separator
        st.fact(z3.And(z3.PrefixOf(arr[0], s), z3.Implies(z3.Length(sz) > 0, (z3.Length(arr[0]) == 0) == z3.Or(z3.PrefixOf(sz, s), z3.Length(s) == 0))))
        # positions: piece k starts at OFF[k]; consecutive pieces are one separator apart; every piece lies inside the text and is free of the separator
        off = uf(ex, "SPLITOFF_" + name.upper(), S, S, z3.ArraySort(I, I))(s, sz)
        st.fact(z3.And(off[0] == 0, off[n - 1] + z3.Length(arr[n - 1]) == z3.Length(s)))
        lst = VList(arr, n, "bytes")
        lst.split_positions = (s, sz, off, n)  # the facts that place piece j are handed out when code indexes the list with the constant j
    lst.split_info = ("sep", s, sz, maxsplit)
    return lst


def str_method(ex, recv, name, args, kwargs, st):
    if name == "join":
        lst = args[0]
        if not isinstance(lst, VList):
            raise Unsupported("join of non-list")
        if lst.ek is None:
            return type(recv)(z3.StringVal(""))
        sep = z3.simplify(recv.z)
        if z3.is_string_value(sep) and sep.as_string() == "" and lst.bytebuf is not None:
            return type(recv)(lst.bytebuf)
        f = uf(ex, "JOIN", S, lst.arr.sort(), I, S)
        ex.assumed.add("bytes.join over an untracked list: uninterpreted JOIN(sep, items, n); empty for no items, the item for one item, starts with items[0] + sep for two or more")
        r = f(recv.z, lst.arr, lst.n)
        st.fact(z3.And(z3.Implies(lst.n <= 0, r == z3.StringVal("")), z3.Implies(lst.n == 1, r == lst.arr[0]), z3.Implies(lst.n >= 2, z3.PrefixOf(z3.Concat(lst.arr[0], recv.z), r))))
        nn = z3.simplify(lst.n)
        if z3.is_int_value(nn) and nn.as_long() <= 3:
            parts = []
            for k in range(nn.as_long()):
                if k:
                    parts.append(recv.z)
                parts.append(lst.arr[k])
            st.fact(r == (z3.Concat(*parts) if len(parts) > 1 else parts[0] if parts else z3.StringVal("")))
        return type(recv)(r)
    if name in ("split", "rsplit"):
        return split_model(ex, recv, name, args, kwargs, st)
    if name == "splitlines":
        n = fresh("nlines", I)
        st.fact(n >= 0)
        return VList(fresh("lines", ArrIS), n, "bytes")
    if name == "decode":
        return decode_model(ex, recv, args, kwargs, st)
    if name == "encode":
        return encode_model(ex, recv, args, kwargs, st)
    if name == "hex":
        f = uf(ex, "HEXLIFY", S, S)
        r = f(recv.z)
        st.fact(z3.Length(r) == 2 * z3.Length(recv.z))
        # bytes.fromhex undoes bytes.hex
        st.fact(z3.And(uf(ex, "FROMHEX", S, S)(r) == recv.z, uf(ex, "ISHEXSTR", S, B)(r)))
        ex.assumed.add("bytes.hex / bytes.fromhex: fromhex(x.hex()) == x; fromhex raises ValueError exactly on strings that are not hexadecimal digit pairs (uninterpreted ISHEXSTR, true of every x.hex())")
        return VStr(r)
    raise Unsupported(f"bytes.{name}")


ASCII_RE = z3.Star(z3.Range(chr(0), chr(127)))


def decode_model(ex, recv, args, kwargs, st):
    enc = "utf-8"
    if args:
        e = z3.simplify(args[0].z)
        enc = e.as_string() if z3.is_string_value(e) else None
    errors = kwargs.get("errors")
    ignore = errors is not None and z3.is_string_value(z3.simplify(errors.z)) and z3.simplify(errors.z).as_string() == "ignore"
    s = recv.z
    if enc in ("ascii", "utf-8", "utf8"):
        # ASCII input decodes to itself; anything else may raise (utf-8: may also succeed with a different text)
        ok = z3.InRe(s, ASCII_RE)
        if enc == "ascii":
            if not ignore:
                ex.raise_if(st, z3.Not(ok), "UnicodeDecodeError", "decode ascii")
            return VStr(s)
        flag = fresh("utf8_invalid", B)
        if not ignore:
            ex.raise_if(st, z3.And(z3.Not(ok), flag), "UnicodeDecodeError", "decode utf-8")
        r = fresh("decoded", S)
        st.fact(z3.Implies(ok, r == s))
        ex.assumed.add("bytes.decode(): ASCII decodes to itself; non-ASCII input may raise UnicodeDecodeError (utf-8 validity is not modelled)")
        return VStr(r)
    if enc == "utf-16":
        ex.assumed.add("bytes.decode('utf-16'): cannot raise on an even-length input none of whose code units is a surrogate (high byte outside D8-DF); otherwise it may raise UnicodeDecodeError; the result has no lone surrogates")
        flag = fresh("utf16_invalid", B)
        hi_ok = z3.Union(z3.Range(chr(0), chr(0xD7)), z3.Range(chr(0xE0), chr(0xFF)))
        safe = z3.Star(z3.Concat(z3.Range(chr(0), chr(255)), hi_ok))
        if not ignore:
            ex.raise_if(st, z3.And(z3.Not(z3.InRe(s, safe)), flag), "UnicodeDecodeError", "decode utf-16")
        f = uf(ex, "UTF16DEC", S, S)
        out = VStr(f(s))
        out.may_have_surrogates = False
        return out
    raise Unsupported(f"decode({enc})")


def encode_model(ex, recv, args, kwargs, st):
    s = recv.z
    f = uf(ex, "UTF8ENC", S, S)
    r = f(s)
    ok = z3.InRe(s, ASCII_RE)
    st.fact(z3.Implies(ok, r == s))
    st.fact(z3.Length(r) >= z3.Length(s))
    flag = fresh("surrogate", B)
    src = getattr(recv, "may_have_surrogates", True)
    cp = getattr(recv, "codepoint", None)
    if cp is not None:
        ex.raise_if(st, z3.And(cp >= 0xD800, cp <= 0xDFFF), "UnicodeEncodeError", "encode (surrogate code point)")
    elif src:
        ex.raise_if(st, z3.And(z3.Not(ok), flag), "UnicodeEncodeError", "encode (lone surrogate)")
    ex.assumed.add("str.encode(): ASCII encodes to itself; raises UnicodeEncodeError only for lone surrogates")
    return VBytes(r)


def minmax(ex, is_max, args, kw, st):
    raise Unsupported("min/max over an iterable")


# ---------------------------------------------------------------------------------------------- library calls
def _const_str(v):
    s = z3.simplify(v.z)
    return s.as_string() if z3.is_string_value(s) else None


INT_DEC = None


def int_lang(base):
    """The literal language accepted by int(bytes, base) (ASCII whitespace, sign, digits with single underscores)."""
    ws = z3.Star(z3.Union(*[z3.Re(z3.StringVal(c)) for c in " \t\n\r\x0b\x0c"]))
    sign = z3.Option(z3.Union(z3.Re("+"), z3.Re("-")))
    if base == 10:
        d = z3.Range("0", "9")
        pre = EPS_
    elif base == 16:
        d = z3.Union(z3.Range("0", "9"), z3.Range("a", "f"), z3.Range("A", "F"))
        pre = z3.Option(z3.Concat(z3.Re("0"), z3.Union(z3.Re("x"), z3.Re("X")), z3.Option(z3.Re("_"))))
    else:
        raise Unsupported(f"int base {base}")
    digits = z3.Concat(d, z3.Star(z3.Concat(z3.Option(z3.Re("_")), d)))
    return z3.Concat(ws, sign, pre, digits, ws)


EPS_ = z3.Re(z3.StringVal(""))


def call_py(ex, obj, name, node, st):
    import binascii
    import builtins
    import urllib.parse

    from . import engine_models as EM

    mod = getattr(obj, "__module__", "") or ""
    oname = getattr(obj, "__name__", name)
    if obj is builtins.sorted:
        args, kw = ex.eval_args(node, st)
        lst = args[0]
        if not isinstance(lst, VList):
            raise Unsupported("sorted of non-list")
        keyfn = kw.get("key")
        if keyfn is None or not isinstance(keyfn, VFunc):
            raise Unsupported("sorted without a key lambda")
        return EM.model_sorted(ex, lst, keyfn, st)
    if obj is builtins.int:
        args, kw = ex.eval_args(node, st)
        a = args[0]
        b = args[1] if len(args) > 1 else kw.get("base")
        if isinstance(a, VInt):
            return a
        if isinstance(a, VOpt):
            raise Unsupported("int(None?)")
        if not isinstance(a, (VBytes, VStr)):
            raise Unsupported(f"int({a})")
        ex.assumed.add("int(text, base): raises ValueError iff text is not in the literal language ws sign? (0x)? digits(_digits)* ws; the value is the number denoted")

        def int_text(base):
            """-> (not-a-literal condition, value): INTVAL<base> is a function of the text; its facts hold whatever base is finally used"""
            f = uf(ex, f"INTVAL{base}", S, I)
            r = f(a.z)
            # value facts: non-negative when no sign can occur; bounded by the digit count
            nodash = z3.Not(z3.Contains(a.z, z3.StringVal("-")))
            st.fact(z3.Implies(nodash, r >= 0))
            if base == 10:
                # exact value of a plain literal of one to three digits, through the character codes (no str.to_int)
                dg = lambda k: z3.StrToCode(z3.SubString(a.z, k, 1)) - 48  # noqa: E731
                ln = z3.Length(a.z)
                val = z3.If(ln == 1, dg(0), z3.If(ln == 2, 10 * dg(0) + dg(1), 100 * dg(0) + 10 * dg(1) + dg(2)))
                st.fact(z3.Implies(z3.InRe(a.z, z3.Loop(z3.Range("0", "9"), 1, 3)), r == val))
                st.fact(z3.Implies(z3.InRe(a.z, z3.Loop(z3.Range("0", "9"), 4, 9)), z3.And(r >= 0, r <= 999999999)))
            if base == 16:
                hexd = z3.Union(z3.Range("0", "9"), z3.Range("a", "f"), z3.Range("A", "F"))
                st.fact(z3.Implies(z3.InRe(a.z, z3.Loop(hexd, 1, 2)), z3.And(r >= 0, r <= 255)))
                st.fact(z3.Implies(z3.InRe(a.z, z3.Concat(z3.Re("0"), z3.Union(z3.Re("x"), z3.Re("X")), z3.Loop(hexd, 1, 2))), z3.And(r >= 0, r <= 255)))
            return z3.Not(z3.InRe(a.z, int_lang(base))), r

        if b is None or is_int_const(b.z):
            base = 10 if b is None else int_const(b.z)
            bad, r = int_text(base)
            ex.raise_if(st, bad, "ValueError", f"int(text, {base})")
            return VInt(r)
        bz = z3.simplify(b.z)
        if z3.is_app_of(bz, z3.Z3_OP_ITE) and is_int_const(bz.arg(1)) and is_int_const(bz.arg(2)):
            # a conditional base (16 if .. else 10): both readings, selected by the condition
            c_ = bz.arg(0)
            bad1, r1 = int_text(int_const(bz.arg(1)))
            bad2, r2 = int_text(int_const(bz.arg(2)))
            ex.raise_if(st, z3.If(c_, bad1, bad2), "ValueError", f"int(text, {int_const(bz.arg(1))} or {int_const(bz.arg(2))})")
            return VInt(z3.If(c_, r1, r2))
        raise Unsupported("symbolic int() base")
    if obj is builtins.chr:
        (a,), _ = ex.eval_args(node, st)
        ex.raise_if(st, z3.Or(a.z < 0, a.z > 0x10FFFF), "ValueError", "chr() arg not in range(0x110000)")
        f = uf(ex, "CHR", I, S)
        r = VStr(f(a.z))
        r.codepoint = a.z
        st.fact(z3.Length(r.z) == 1)
        st.fact(z3.Implies(z3.And(0 <= a.z, a.z < 128), r.z == z3.StrFromCode(a.z)))
        return r
    if obj is builtins.set:
        (a,), _ = ex.eval_args(node, st)
        if isinstance(a, VBytes):
            f = uf(ex, "NDISTINCT", S, I)
            r = f(a.z)
            st.fact(z3.And(r >= 0, r <= z3.Length(a.z), r <= 256, (r == 0) == (z3.Length(a.z) == 0)))
            ex.assumed.add("len(set(bytes)): number of distinct bytes, between 0 and min(len, 256), 0 iff empty")
            return VList(z3.K(I, z3.IntVal(0)), r, "int")
        raise Unsupported("set()")
    if obj is builtins.all or obj is builtins.any:
        return all_any(ex, obj is builtins.all, node, st)
    if obj is builtins.max and node.keywords:
        return EM_max(ex, node, st)
    if mod == "regex.regex" or mod == "regex" or mod.startswith("regex"):
        args, kw = ex.eval_args(node, st)
        if oname in ("finditer", "search", "match", "fullmatch"):
            pat = _pattern_bytes(ex, args[0])
            data = args[1]
            if not isinstance(data, VBytes):
                raise Unsupported("regex on non-bytes")
            if oname == "finditer":
                return re_finditer(ex, pat, data, st)
            pos = kw.get("pos")
            return single_match(ex, pat, data, st, oname, pos.z if pos is not None else None)
        if oname == "sub":
            return re_sub(ex, args, kw, st)
    import ipaddress as _ipa
    import socket as _sock

    if obj in (_sock.inet_aton, _sock.inet_pton):
        # socket.inet_aton(text) / socket.inet_pton(AF_INET6, text): OSError exactly on texts the C library rejects (uninterpreted ATON_OK / PTON6_OK)
        args, _ = ex.eval_args(node, st)
        a = args[-1]
        if not isinstance(a, VStr):
            raise Unsupported("inet_aton / inet_pton of a non-str")
        fam = "4" if obj is _sock.inet_aton else "6"
        ex.assumed.add("socket.inet_aton / inet_pton: raise OSError exactly on the texts they reject (uninterpreted); ipaddress.IPv4Address / IPv6Address of the packed value may raise "
                       "AddressValueError; `.compressed` is an ASCII text that is a function of the parsed text (uninterpreted CANON4 / CANON6); a canonical dotted quad is accepted and is its own compressed form")
        ok_ = uf(ex, "INET_OK" + fam, S, B)(a.z)
        if fam == "4":
            st.fact(z3.Implies(uf(ex, "CANON_QUAD", S, B)(a.z), ok_))
        ex.raise_if(st, z3.Not(ok_), "OSError", "inet_aton" if fam == "4" else "inet_pton")
        o = VObj("packed" + fam, {})
        o.text = a.z
        return o
    if obj is _ipa.IPv4Address and len(node.args) == 1:
        a0 = ex.eval(node.args[0], st)
        if isinstance(a0, VStr):
            # IPv4Address(text): accepts exactly the canonical dotted quads (four decimal parts 0-255 without leading zeros)
            ex.assumed.add("ipaddress.IPv4Address(text) raises AddressValueError exactly when text is not a canonical dotted quad (uninterpreted CANON_QUAD)")
            ex.raise_if(st, z3.Not(uf(ex, "CANON_QUAD", S, B)(a0.z)), "AddressValueError", "IPv4Address(text)")
            o = VObj("ipaddr", {"compressed": VStr(a0.z)})
            return o
    if obj in (_ipa.IPv4Address, _ipa.IPv6Address):
        (a,), _ = ex.eval_args(node, st)
        if not (isinstance(a, VObj) and a.cls.startswith("packed")):
            raise Unsupported("IPv4Address / IPv6Address of something other than a packed address")
        fam = a.cls[-1]
        ave = uf(ex, "ADDRESS_VALUE_ERROR" + fam, S, B)(a.text)
        if fam == "4":
            st.fact(z3.Implies(uf(ex, "CANON_QUAD", S, B)(a.text), z3.Not(ave)))
        ex.raise_if(st, ave, "AddressValueError", "ipaddress")
        canon = uf(ex, "CANON" + fam, S, S)(a.text)
        st.fact(z3.InRe(canon, z3.Plus(z3.Union(z3.Range("0", "9"), z3.Range("a", "f"), z3.Re("."), z3.Re(":")))))
        if fam == "4":
            cq = uf(ex, "CANON_QUAD", S, B)(a.text)
            st.fact(z3.Implies(cq, canon == a.text))
        o = VObj("ipaddr", {"compressed": VStr(canon)})
        o.attrs["compressed"].may_have_surrogates = False
        return o
    if getattr(obj, "__name__", "") == "fromhex" and getattr(obj, "__self__", None) is bytes:
        (a,), _ = ex.eval_args(node, st)
        if not isinstance(a, VStr):
            raise Unsupported("bytes.fromhex of a non-str")
        ex.raise_if(st, z3.Not(uf(ex, "ISHEXSTR", S, B)(a.z)), "ValueError", "bytes.fromhex")
        ex.assumed.add("bytes.hex / bytes.fromhex: fromhex(x.hex()) == x; fromhex raises ValueError exactly on strings that are not hexadecimal digit pairs (uninterpreted ISHEXSTR, true of every x.hex())")
        return VBytes(uf(ex, "FROMHEX", S, S)(a.z))
    if obj is binascii.a2b_base64:
        (a,), _ = ex.eval_args(node, st)
        flag = fresh("b64_invalid", B)
        ex.raise_if(st, flag, "binascii.Error", "a2b_base64")
        ex.assumed.add("binascii.a2b_base64 (non-strict): total except binascii.Error; the result is the RFC 4648 decoding of the alphabet characters (uninterpreted B64DEC)")
        f = uf(ex, "B64DEC", S, S)
        r = f(a.z)
        st.fact(z3.Length(r) * 4 <= z3.Length(a.z) * 3)
        return VBytes(r)
    if obj is binascii.unhexlify:
        (a,), _ = ex.eval_args(node, st)
        hexd = z3.Union(z3.Range("0", "9"), z3.Range("a", "f"), z3.Range("A", "F"))
        ok = z3.InRe(a.z, z3.Star(z3.Concat(hexd, hexd)))
        ex.raise_if(st, z3.Not(ok), "binascii.Error", "unhexlify")
        ex.assumed.add("binascii.unhexlify: raises binascii.Error iff the argument is not an even number of hex digits; len(result) == len(arg)/2 (uninterpreted UNHEX)")
        f = uf(ex, "UNHEX", S, S)
        r = f(a.z)
        st.fact(z3.Implies(ok, z3.Length(r) * 2 == z3.Length(a.z)))
        return VBytes(r)
    if obj is urllib.parse.urlsplit:
        (a,), _ = ex.eval_args(node, st)
        return urlsplit_model(ex, a, st)
    if obj is urllib.parse.unquote_to_bytes:
        (a,), _ = ex.eval_args(node, st)
        ex.assumed.add("urllib.parse.unquote_to_bytes: total on bytes; result no longer than the argument (uninterpreted UNQUOTE)")
        f = uf(ex, "UNQUOTE", S, S)
        r = f(a.z)
        st.fact(z3.And(z3.Length(r) <= z3.Length(a.z), z3.Length(r) * 3 >= z3.Length(a.z)))
        return VBytes(r)
    raise Unsupported(f"call of {name}")


URLSPLIT_CONTRACT = (
    "urllib.parse.urlsplit on bytes without whitespace / control bytes: raises only ValueError; otherwise text == [schemetext ':'] ['//' netloc] path ['?' query] ['#' fragment], "
    "scheme == lower(schemetext), netloc has no / ? #, path has no ? #, query has no #, a component that is absent is empty (a '?' or '#' may be present with an EMPTY query / fragment)"
)


def url_parts(ex, tz):
    f = lambda nm, srt: uf(ex, nm, S, srt)(tz)  # noqa: E731
    return {"scheme": f("URLSCHEME", S), "schemetext": f("URLSCHEMETEXT", S), "netloc": f("URLNETLOC", S), "path": f("URLPATH", S), "query": f("URLQUERY", S),
            "fragment": f("URLFRAGMENT", S), "hasnl": f("URLHASNETLOC", B), "hasq": f("URLHASQUERY", B), "hasf": f("URLHASFRAGMENT", B),
            "ps": f("URLPART_S", S), "pn": f("URLPART_N", S), "pq": f("URLPART_Q", S), "pf": f("URLPART_F", S)}


def urlsplit_facts(t, p, lo):
    """-> (definition, interface).  `definition` is the stated contract of urlsplit (URLSPLIT_CONTRACT): the text is the concatenation of the optional pieces.
    `interface` is what function proofs are given: lengths plus the position of every component inside the text.  interface follows from definition
    (model lemma `urlsplit-positions`, discharged every run); z3's sequence solver does not terminate on the definition itself, cvc5 decides it at once."""
    e = z3.StringVal("")
    L, C, sv = z3.Length, z3.Contains, z3.StringVal
    ps, pn, pq, pf = p["ps"], p["pn"], p["pq"], p["pf"]
    concat = [t == z3.Concat(ps, pn, p["path"], pq, pf), L(t) == L(ps) + L(pn) + L(p["path"]) + L(pq) + L(pf)]
    pieces = [ps == z3.If(L(p["scheme"]) > 0, z3.Concat(p["schemetext"], sv(":")), e), pn == z3.If(p["hasnl"], z3.Concat(sv("//"), p["netloc"]), e),
              pq == z3.If(p["hasq"], z3.Concat(sv("?"), p["query"]), e), pf == z3.If(p["hasf"], z3.Concat(sv("#"), p["fragment"]), e)]
    lens = [L(ps) == z3.If(L(p["scheme"]) > 0, L(p["scheme"]) + 1, 0), L(pn) == z3.If(p["hasnl"], L(p["netloc"]) + 2, 0),
            L(pq) == z3.If(p["hasq"], L(p["query"]) + 1, 0), L(pf) == z3.If(p["hasf"], L(p["fragment"]) + 1, 0)]
    misc = [L(p["schemetext"]) == L(p["scheme"]), p["scheme"] == lo(p["schemetext"]), L(lo(p["schemetext"])) == L(p["schemetext"]),
            z3.Implies(z3.Not(p["hasnl"]), p["netloc"] == e), z3.Implies(z3.Not(p["hasq"]), p["query"] == e), z3.Implies(z3.Not(p["hasf"]), p["fragment"] == e),
            z3.Not(C(p["netloc"], sv("/"))), z3.Not(C(p["netloc"], sv("?"))), z3.Not(C(p["netloc"], sv("#"))),
            z3.Not(C(p["path"], sv("?"))), z3.Not(C(p["path"], sv("#"))), z3.Not(C(p["query"], sv("#"))),
            z3.InRe(p["schemetext"], z3.Star(z3.Union(z3.Range("a", "z"), z3.Range("A", "Z"), z3.Range("0", "9"), z3.Re("+"), z3.Re("-"), z3.Re("."))))]
    o1 = L(ps)
    o2 = o1 + L(pn)
    o3 = o2 + L(p["path"])
    o4 = o3 + L(pq)
    positions = {
        "scheme": z3.Implies(L(p["scheme"]) > 0, z3.And(z3.SubString(t, 0, L(p["scheme"])) == p["schemetext"], z3.SubString(t, L(p["scheme"]), 1) == sv(":"))),
        "netloc": z3.Implies(p["hasnl"], z3.SubString(t, o1 + 2, L(p["netloc"])) == p["netloc"]),
        "path": z3.SubString(t, o2, L(p["path"])) == p["path"],
        "after-path": z3.SubString(t, o3, 1) == z3.If(p["hasq"], sv("?"), z3.If(p["hasf"], sv("#"), e)),
        "query": z3.Implies(p["hasq"], z3.SubString(t, o3 + 1, L(p["query"])) == p["query"]),
        "hash": z3.Implies(p["hasf"], z3.SubString(t, o4, 1) == sv("#")),
        "fragment": z3.Implies(p["hasf"], z3.SubString(t, o4 + 1, L(p["fragment"])) == p["fragment"]),
    }
    return concat + pieces + lens + misc, concat + lens + misc + list(positions.values()), positions


def _urlsplit_positions_lemma():
    t = z3.Const("url", S)
    lo = z3.Function("LOWER", S, S)
    p = {k: z3.Const("url_" + k, B if k.startswith("has") else S) for k in ("scheme", "schemetext", "netloc", "path", "query", "fragment", "hasnl", "hasq", "hasf", "ps", "pn", "pq", "pf")}
    definition, _, positions = urlsplit_facts(t, p, lo)
    return [(k, definition, g) for k, g in positions.items()]


from .contract import MODEL_LEMMAS  # noqa: E402

MODEL_LEMMAS["urlsplit-positions"] = _urlsplit_positions_lemma
MODEL_LEMMAS["split-positions"] = _split_positions_lemma


def urlsplit_model(ex, a, st):
    ex.assumed.add(URLSPLIT_CONTRACT)
    ex.used_lemmas = getattr(ex, "used_lemmas", set()) | {"urlsplit-positions"}
    t = a.z
    p = url_parts(ex, t)
    ex.raise_if(st, uf(ex, "URLSPLIT_RAISES", S, B)(t), "ValueError", "urlsplit")  # whether urlsplit rejects a text is a function of the text
    _, interface, _ = urlsplit_facts(t, p, uf(ex, "LOWER", S, S))
    st.fact(z3.And(*interface))
    o = VObj("urlsplit", {k: VBytes(p[k]) for k in ("scheme", "netloc", "path", "query", "fragment")})
    o.text = t
    return o


def urlsplit_attr(ex, obj, attr, st):
    """SplitResult.port / .hostname: properties computed from the netloc (port validates and may raise ValueError)."""
    t = obj.text
    if attr == "port":
        ex.raise_if(st, fresh("port_raises", B), "ValueError", "SplitResult.port")
        n = fresh("port", I)
        st.fact(z3.And(0 <= n, n <= 65535))
        return VOpt(fresh("port_is_none", B), VInt(n))
    if attr == "hostname":
        ex.assumed.add("SplitResult.hostname is None or a part of the netloc (a non-empty hostname means a non-empty netloc)")
        hn = uf(ex, "URLHOSTNAME", S, S)(t)
        none = uf(ex, "URLHOSTNAME_NONE", S, B)(t)
        st.fact(z3.Implies(z3.And(z3.Not(none), z3.Length(hn) > 0), z3.And(uf(ex, "URLHASNETLOC", S, B)(t), z3.Length(uf(ex, "URLNETLOC", S, S)(t)) > 0)))
        return VOpt(none, VBytes(hn))
    raise Unsupported(f"SplitResult.{attr}")


def re_sub(ex, args, kw, st):
    pat = _pattern_bytes(ex, args[0])
    repl, s = args[1], args[2]
    ex.assumed.add("regex.sub(P, literal, s): uninterpreted RESUB_P(s); with an empty replacement the result is no longer than s and equal to s when s has no match of P")
    if isinstance(repl, VBytes):
        rz = z3.simplify(repl.z)
        if z3.is_string_value(rz) and rz.as_string() == "":
            f = uf(ex, "RESUB_" + str(abs(hash(pat)) % 10**8), S, S)
            r = f(s.z)
            st.fact(z3.Length(r) <= z3.Length(s.z))
            return VBytes(r)
    cbc = ex.contract_for(f"{ex.qualname}.{getattr(repl, 'name', '')}") if isinstance(repl, VFunc) else None
    if cbc is not None and not cbc.trusted:
        # re.sub(P, callback, s) where the nested callback has a VERIFIED contract: the result keeps the text between the matches and replaces every match m by
        # callback(m) (assumed of regex.sub); clauses of the callback named never-longer / printable then hold of the whole result (argued: induction over the matches)
        f = uf(ex, "RESUB_CB_" + str(abs(hash(pat)) % 10**8), S, S)
        r = f(s.z)
        ex.assumed.add(f"regex.sub(P, callback, s) replaces every non-overlapping match m of P by callback(m) and keeps the text between matches; the callback {cbc.qualname.split('.')[-1]} "
                       "is under contract (never longer than the match / printable), which carries over to the whole result by induction over the matches (argued)")
        if "never-longer" in cbc.ensures:
            st.fact(z3.Length(r) <= z3.Length(s.z))
        if "printable" in cbc.ensures:
            pr = z3.Star(z3.Range("!", "~"))
            st.fact(z3.Implies(z3.InRe(s.z, pr), z3.InRe(r, pr)))
        return VBytes(r)
    if isinstance(repl, VFunc) and "@resub_callback" in ex.c.types:
        # re.sub(P, callback, s) with a nested function as replacement: the result is an uninterpreted function of s; what the contract ASSUMES of the
        # callback (types["@resub_callback"], e.g. that every replacement is no longer than its match) is listed in the evidence and yields the facts below
        f = uf(ex, "RESUB_CB_" + str(abs(hash(pat)) % 10**8), S, S)
        r = f(s.z)
        note = ex.c.types["@resub_callback"]
        ex.assumed.add(f"regex.sub(P, {repl.name}, s): uninterpreted function of s; ASSUMED of the callback {repl.name}: {note}")
        if "never-longer" in note:
            st.fact(z3.Length(r) <= z3.Length(s.z))
        if "printable" in note:
            pr = z3.Star(z3.Range("!", "~"))
            st.fact(z3.Implies(z3.InRe(s.z, pr), z3.InRe(r, pr)))
        return VBytes(r)
    raise Unsupported("re.sub with a non-empty or callable replacement")


def all_any(ex, is_all, node, st):
    """all(<genexp>) / any(<genexp>) over a bytes or list source: a quantified condition."""
    g = node.args[0]
    if not isinstance(g, ast.GeneratorExp) or len(g.generators) != 1 or g.generators[0].ifs:
        raise Unsupported("all/any of a non-trivial generator")
    gen = g.generators[0]
    it = ex.iter_source(gen.iter, st)
    i = fresh("i", I)
    view = st.clone()
    view.in_binder += 1
    ex.assign(gen.target, ex.iter_elem(it, i, view), view)
    saved = getattr(ex, "spec_mode", False)
    ex.spec_mode = True
    try:
        c = ex.truthy(ex.eval(g.elt, view), view)
    finally:
        ex.spec_mode = saved
    rng = z3.And(0 <= i, i < it["n"])
    return VBool(z3.ForAll([i], z3.Implies(rng, c)) if is_all else z3.Exists([i], z3.And(rng, c)))


def EM_max(ex, node, st):
    raise Unsupported("max with keyword arguments")


def _sym_consts(fs):
    """The uninterpreted constants (arity 0) occurring in the formulas, each once."""
    seen, out, todo = set(), {}, list(fs)
    while todo:
        e = todo.pop()
        if e.get_id() in seen:
            continue
        seen.add(e.get_id())
        if z3.is_quantifier(e):
            todo.append(e.body())
            continue
        if z3.is_app(e):
            if e.num_args() == 0 and e.decl().kind() == z3.Z3_OP_UNINTERPRETED:
                out[e.decl().name()] = e
            todo.extend(e.children())
    return list(out.values())


# ---------------------------------------------------------------------------------------------- comprehensions
def comprehension(ex, node, st, kind):
    from . import engine_models as EM

    if EM.is_registry_genexp(ex, node, st):
        return EM.registry_batch(ex, node, st)
    gens = node.generators
    it = ex.iter_source(gens[0].iter, st)
    pre = ex.flush(st)
    for rs_, _fl, (exc_, desc_, ln_) in pre:
        # a raise while evaluating the iteration source: it has to be unreachable (obligation), unless the contract allows the exception
        from . import builtins_tbl as BT_

        if any(cls in ex.c.raises or cls in ex.c.raises_iff for cls in BT_.exc_supers(exc_)):
            raise Unsupported("raising iteration source inside a comprehension of a function that may raise")
        ex.oblige(rs_, "safe", f"{exc_}@L{ln_ - ex.fn.lineno}:{desc_} (comprehension source)", z3.BoolVal(False), ln_)
    n = it["n"]
    # ---- the body for ARBITRARY indices (forall-introduction), one per generator
    sc = st.clone()
    A0 = sc.alloc
    i = None
    has_filter = False
    filt = []
    for gk, gen in enumerate(gens):
        itk = it if gk == 0 else ex.iter_source(gen.iter, sc)
        ik = fresh("ci", I)
        if i is None:
            i = ik
        sc.assume(0 <= ik, ik < itk["n"])
        ex.assign(gen.target, ex.iter_elem(itk, ik, sc), sc)
        if isinstance(gen.target, ast.Name) and gen.target.id in ex.c.comp_assume:
            sc.assume(ex.spec_bool(ex.c.comp_assume[gen.target.id], sc))
            ex.assumed.add(f"trusted lemma about the elements `{gen.target.id}` of a comprehension in {ex.qualname}: {ex.c.comp_assume[gen.target.id]}")
        for cond in gen.ifs:
            c = ex.truthy(ex.eval(cond, sc), sc)
            filt.append(c)
            sc.assume(c)
            has_filter = True
    if len(gens) > 1:
        has_filter = True  # the length of a nested comprehension is not the length of its first source
    gen = gens[0]
    e = ex.eval(node.elt, sc)
    # potential raises of the body: obligations unless the function's contract allows the exception
    line = getattr(ex, "cur_line", 0)
    from . import builtins_tbl as BT

    for cond, exc, desc, ln, _snap in sc.pending:
        allowed = any(cls in ex.c.raises or cls in ex.c.raises_iff for cls in BT.exc_supers(exc))
        handler = getattr(ex, "comp_handlers", [])
        caught = any(h in BT.exc_supers(exc) for h in handler)
        if caught:
            # inside try/except: the whole comprehension may raise; the condition is existential over i
            ex.raise_if(st, fresh("comp_raises", B), exc, desc)
            continue
        if not allowed:
            s2 = sc.clone()
            s2.pending = []
            s2.assume(cond)
            ex.oblige(s2, "safe", f"{exc}@L{ln - ex.fn.lineno}:{desc} (comprehension element)", z3.BoolVal(False), ln)
    sc.pending = []
    m = fresh("ncomp", I) if has_filter else n
    if has_filter:
        st.assume(0 <= m)
        if len(gens) == 1:
            st.assume(m <= n)
            if filt:
                # a filter that holds of EVERY element drops none: (forall element facts -> conditions) -> m == n.  The symbols made while
                # evaluating the element are universally quantified (the strongest reading); the facts are those of the encoding about element i
                from .solve import _consts as _cs

                memo_ = {}
                known_ = set()
                for c_ in st.path:
                    known_ |= _cs(c_, memo_)
                for v_ in st.store.values():
                    for a_ in vars(v_).values() if hasattr(v_, "__dict__") else ():
                        if isinstance(a_, z3.ExprRef):
                            known_ |= _cs(a_, memo_)
                fids = {c_.get_id() for c_ in filt}
                ante = [c_ for c_ in sc.path[len(st.path):] if c_.get_id() not in fids]
                new_syms = set()
                for c_ in ante + filt:
                    new_syms |= _cs(c_, memo_) - known_
                bound_ = [v_ for v_ in _sym_consts(ante + filt) if v_.decl().name() in new_syms and v_.decl().arity() == 0]
                body_ = z3.Implies(z3.And(*ante) if ante else z3.BoolVal(True), z3.And(*filt))
                # (forall x. P(x)) -> m == n, stated without a quantifier: m == n or not P(w) for NEW witness constants w (never the symbols of
                # the arbitrary element, which stand for every element in the obligations about it)
                wit_ = [(v_, fresh("w_" + v_.decl().name().split("!")[0], v_.sort())) for v_ in bound_]
                st.assume(z3.Or(m == n, z3.Not(z3.substitute(body_, *wit_) if wit_ else body_)))
    if isinstance(e, VRef):
        return comp_nodes(ex, st, sc, e, A0, m, i)
    if isinstance(e, VJson):
        # JSON records built element-wise by a pure callee: the clauses of `comp_each` are proved of the arbitrary element and assumed of all
        if has_filter:
            raise Unsupported("filtered comprehension of JSON objects")
        for f_ in sc.heap:
            if sc.heap[f_] is not st.heap[f_]:
                raise Unsupported("comprehension of JSON objects whose body writes the heap")
        v = sc.clone()
        v.store["elem"] = e
        v.store["k_"] = VInt(i)
        for nm, clause in ex.c.comp_each.items():
            ex.oblige(v, "each", nm, ex.spec_bool(clause, v), getattr(ex, "cur_line", 0))
        R = fresh("jsons", ArrII)
        out = VList(R, m, "json")
        k = fresh("k", I)
        view = st.clone()
        view.in_binder += 1
        view.store = dict(st.store)
        view.store["elem"] = VJson(R[k])
        view.store["k_"] = VInt(k)
        for nm, clause in ex.c.comp_each.items():
            st.assume(z3.ForAll([k], z3.Implies(z3.And(0 <= k, k < m), ex.spec_bool(clause, view))))
        return out
    if isinstance(e, (VInt, VBytes)):
        ek = e.kind
        arr = fresh("comp", z3.ArraySort(I, ELEM_SORT[ek]))
        out = VList(arr, m, ek)
        # elementwise obligations for consumers (bytes(...) needs 0 <= x < 256): remember the arbitrary element and its state
        out.arbitrary = (i, e, sc)
        if not has_filter:
            out.elem_state = sc
            # when the element is a TERM over the index and symbols that already exist (no fresh symbol was made while evaluating the
            # body), the list is defined by it: out[k] == e[i := k]
            from .solve import _consts

            memo = {}
            known = set()
            for c_ in st.path:
                known |= _consts(c_, memo)
            for v_ in st.store.values():
                for a_ in vars(v_).values() if hasattr(v_, "__dict__") else ():
                    if isinstance(a_, z3.ExprRef):
                        known |= _consts(a_, memo)
            if _consts(e.z, memo) - {i.decl().name()} <= known:
                out.arr = z3.Lambda([i], e.z)
                # the ground facts of the encoding met while evaluating the body hold of every element
                ef = [c_ for c_ in sc.path[len(st.path):] if c_.get_id() in sc.facts_seen and _consts(c_, memo) - {i.decl().name()} <= known]
                if ef:
                    st.assume(z3.ForAll([i], z3.Implies(z3.And(0 <= i, i < n), z3.And(*ef))))
        return out
    raise Unsupported(f"comprehension element of kind {e.kind}")


def comp_nodes(ex, st, sc, e, A0, m, i):
    """List of freshly allocated nodes built by a comprehension.  The element clauses of the function's contract
    (`ensures_each`) are proved for the arbitrary element in the body's state and then assumed of every element."""
    from .exec import HEAP_FIELDS

    # frame: the body writes only nodes it allocates
    for f in list(HEAP_FIELDS) + ["children", "nchildren"]:
        if sc.heap[f] is not st.heap[f]:
            r = fresh("r", I)
            ex.oblige(sc, "frame/write", f"{f}@comprehension", z3.ForAll([r], z3.Implies(z3.And(0 <= r, r < A0), sc.heap[f][r] == st.heap[f][r])), getattr(ex, "cur_line", 0))
    each = getattr(ex.c, "comp_each", {}) or getattr(ex.c, "ensures_each", {}) or {}
    v = sc.clone()
    if not getattr(ex.c, "comp_each", {}):
        v.store["node"] = e  # ensures_each clauses call the element `node`; comp_each clauses call it `elem` (a local may be called node)
    v.store["elem"] = e
    v.store["k_"] = VInt(i)
    v.store["fresh_from"] = VInt(A0)
    for nm, clause in each.items():
        ex.oblige(v, "each", nm, ex.spec_bool(clause, v), getattr(ex, "cur_line", 0))
    ex.oblige(v, "each", "element-is-fresh", z3.And(e.z >= A0, e.z < sc.alloc), getattr(ex, "cur_line", 0))
    top_c = getattr(ex, "top_contract", None) or ex.c
    for nm, clause in getattr(top_c, "each_local", {}).items():
        vl = v.clone()
        vl.store["node"] = e
        ex.oblige(vl, "each-local", nm, ex.spec_bool(clause, vl), getattr(ex, "cur_line", 0))
    # ---- the resulting list and heap
    A1 = fresh("alloc@comp", I)
    st.assume(A1 >= A0)
    old = dict(st.heap)
    r = fresh("r", I)
    for f in list(HEAP_FIELDS) + ["children", "nchildren"]:
        new = fresh(f"H_{f}@comp", st.heap[f].sort())
        st.assume(z3.ForAll([r], z3.Implies(z3.And(0 <= r, r < A0), new[r] == old[f][r])))
        st.heap[f] = new
    st.alloc = A1
    ex.heap_type_invariants(st)
    R = fresh("nodes", ArrII)
    out = VList(R, m, "ref")
    k = fresh("k", I)
    k2 = fresh("k2", I)
    st.assume(z3.ForAll([k], z3.Implies(z3.And(0 <= k, k < m), z3.And(A0 <= R[k], R[k] < A1))))
    st.assume(z3.ForAll([k, k2], z3.Implies(z3.And(0 <= k, k < k2, k2 < m), R[k] != R[k2])))
    view = st.clone()
    view.in_binder += 1
    view.store = dict(st.store)
    if not getattr(ex.c, "comp_each", {}):
        view.store["node"] = VRef(R[k])
    view.store["elem"] = VRef(R[k])
    view.store["k_"] = VInt(k)
    view.store["fresh_from"] = VInt(A0)
    for nm, clause in each.items():
        st.assume(z3.ForAll([k], z3.Implies(z3.And(0 <= k, k < m), ex.spec_bool(clause, view))))
    out.established = set(each)
    return out
