"""Regex / stdlib call models (stage 2).  Placeholders raise Unsupported."""
from __future__ import annotations

from .values import *  # noqa: F403


def obj_method(ex, recv, name, args, kwargs, st):
    raise Unsupported(f"method {name} on {recv}")


def strip_model(ex, recv, args, st):
    raise Unsupported("bytes.strip")


def str_method(ex, recv, name, args, kwargs, st):
    import z3

    if name == "join":
        lst = args[0]
        if not isinstance(lst, VList):
            raise Unsupported("join of non-list")
        if lst.ek is None:
            return type(recv)(z3.StringVal(""))
        sep = z3.simplify(recv.z)
        if z3.is_string_value(sep) and sep.as_string() == "" and lst.bytebuf is not None:
            return type(recv)(lst.bytebuf)
        from .builtins_tbl import uf

        f = uf(ex, "JOIN", S, lst.arr.sort(), I, S)
        ex.assumed.add("bytes.join over an untracked list: uninterpreted JOIN(sep, items, n)")
        return type(recv)(f(recv.z, lst.arr, lst.n))
    raise Unsupported(f"bytes.{name}")


def minmax(ex, is_max, args, kw, st):
    raise Unsupported("min/max")


def call_py(ex, obj, name, node, st):
    import builtins

    from . import engine_models as EM

    if obj is builtins.sorted:
        args, kw = ex.eval_args(node, st)
        lst = args[0]
        if not isinstance(lst, VList):
            raise Unsupported("sorted of non-list")
        keyfn = kw.get("key")
        if keyfn is None or not isinstance(keyfn, VFunc):
            raise Unsupported("sorted without a key lambda")
        return EM.model_sorted(ex, lst, keyfn, st)
    raise Unsupported(f"call of {name}")


def comprehension(ex, node, st, kind):
    from . import engine_models as EM

    if EM.is_registry_genexp(ex, node, st):
        return EM.registry_batch(ex, node, st)
    raise Unsupported("comprehension")


def match_at(ex, it, i, st):
    raise Unsupported("match iteration")
