"""Builtin semantics: bytes / list / str methods, builtin functions, slices, spec-level forms.

Everything here is part of the TRUSTED encoding of Python (DESIGN.md 3.3 / 4.4).  Each entry that is an
*assumed contract* of a library (rather than a definitional encoding) registers itself in `ex.assumed`, and
pyvc.validate checks the executable ones against the real library on every run.
"""
from __future__ import annotations

import ast

import z3

from .values import *  # noqa: F403

EXC_TREE = {
    "BaseException": None,
    "Exception": "BaseException",
    "ValueError": "Exception",
    "UnicodeError": "ValueError",
    "UnicodeDecodeError": "UnicodeError",
    "UnicodeEncodeError": "UnicodeError",
    "binascii.Error": "ValueError",
    "AddressValueError": "ValueError",
    "LookupError": "Exception",
    "IndexError": "LookupError",
    "KeyError": "LookupError",
    "TypeError": "Exception",
    "AttributeError": "Exception",
    "ArithmeticError": "Exception",
    "ZeroDivisionError": "ArithmeticError",
    "OverflowError": "ArithmeticError",
    "AssertionError": "Exception",
    "OSError": "Exception",
    "struct.error": "Exception",
    "PEFormatError": "Exception",
    "AnalysisError": "Exception",
    "StopIteration": "Exception",
    "RecursionError": "Exception",
}


def exc_supers(name: str):
    out = []
    while name is not None:
        out.append(name)
        name = EXC_TREE.get(name, "Exception" if name not in ("BaseException", "Exception") and name not in EXC_TREE else None)
    return out


# ---------------------------------------------------------------------------------------------- uninterpreted helpers
def uf(ex, name, *sorts):
    if name not in ex.uf:
        ex.uf[name] = z3.Function(name, *sorts)
    return ex.uf[name]


def sop(ex, st, name, args, ret_sort, native):
    """A string operation as an uninterpreted symbol plus (outside binders, unless the contract keeps the
    operation opaque) one ground defining equation.  String theory never occurs under a quantifier."""
    in_binder = getattr(st, "in_binder", 0)
    opaque = name.lower() in ex.c.opaque
    if not in_binder and not opaque and not getattr(ex, "force_uf", False):
        nat = native()
        f = uf(ex, name, *[a.sort() for a in args], ret_sort)
        st.fact(f(*args) == nat)  # links the ground term with instances of quantified clauses (which use the symbol)
        return nat
    f = uf(ex, name, *[a.sort() for a in args], ret_sort)
    t = f(*args)
    if not in_binder and not opaque:
        st.fact(t == native())
    return t


ALNUM = z3.Union(z3.Range("0", "9"), z3.Range("a", "z"), z3.Range("A", "Z"))
UPPER = z3.Range("A", "Z")
LOWER = z3.Range("a", "z")
ANYCH = z3.Range(chr(0), chr(255))
WS = z3.Union(*[z3.Re(c) for c in " \t\n\r\x0b\x0c"])


def lower_of(ex, s, st):
    """bytes.lower(): uninterpreted LOWER with ground facts (length, idempotence on literals)."""
    ss = z3.simplify(s)
    if z3.is_string_value(ss):
        return bytes_lit(z3_to_bytes(ss).lower())
    f = uf(ex, "LOWER", S, S)
    r = f(s)
    st.fact(z3.Length(r) == z3.Length(s))
    ex.assumed.add("bytes.lower: length-preserving, pointwise ASCII A-Z -> a-z (ground instances)")
    return r


def lower_char_fact(ex, s, i, st):
    """LOWER(s)[i] is the lower-case of s[i] (ground instance at index i)."""
    f = uf(ex, "LOWER", S, S)
    c = z3.StrToCode(z3.SubString(s, i, 1))
    lc = z3.StrToCode(z3.SubString(f(s), i, 1))
    st.fact(z3.Implies(z3.And(0 <= i, i < z3.Length(s)), lc == z3.If(z3.And(c >= 65, c <= 90), c + 32, c)))


def upper_of(ex, s, st):
    ss = z3.simplify(s)
    if z3.is_string_value(ss):
        return bytes_lit(z3_to_bytes(ss).upper())
    f = uf(ex, "UPPER", S, S)
    r = f(s)
    st.fact(z3.Length(r) == z3.Length(s))
    if "printable-upper" in ex.c.opaque or "@upper_printable" in ex.c.types:
        pr = z3.Star(z3.Range("!", "~"))
        st.fact(z3.Implies(z3.InRe(s, pr), z3.InRe(r, pr)))  # ASCII case mapping keeps printable ASCII printable (asked for by the contract)
        ex.assumed.add("bytes.upper maps printable ASCII to printable ASCII")
    ex.assumed.add("bytes.upper: length-preserving (ground instances)")
    return r


def rev_of(ex, s, st):
    ss = z3.simplify(s)
    if z3.is_string_value(ss):
        return bytes_lit(z3_to_bytes(ss)[::-1])
    f = uf(ex, "REV", S, S)
    r = f(s)
    st.fact(z3.Length(r) == z3.Length(s))
    return r


def int_xor(ex, x, y, st):
    """a ^ b for non-negative ints below 2**16 via bit-vectors; other operands are outside the encoding."""
    W = 16
    ex.raise_if(st, z3.Or(x < 0, y < 0, x >= 2**W, y >= 2**W), "Unsupported", "xor operand outside [0, 65536) is not modelled")
    return z3.BV2Int(z3.Int2BV(x, W) ^ z3.Int2BV(y, W), is_signed=False)


def true_div(ex, x, y, st):
    ex.raise_if(st, y == 0, "ZeroDivisionError", "true division")
    return VObj("ratio", {"num": x, "den": y})


def ratio_op(ex, op, a, b, st):
    raise Unsupported("arithmetic on float ratios")


def ratio_cmp(ex, op, a, b, st):
    """Comparison of two exact ratios with positive denominators (float rounding NOT modelled: listed assumption)."""
    def nd(v):
        if isinstance(v, VObj):
            return v.attrs["num"], v.attrs["den"]
        return v.z, z3.IntVal(1)

    (n1, d1), (n2, d2) = nd(a), nd(b)
    ex.assumed.add("float comparison of two int/int quotients treated as exact rational comparison")
    st.fact(z3.And(d1 != 0, d2 != 0))
    lhs, rhs = n1 * d2, n2 * d1
    sign = z3.If(d1 * d2 > 0, 1, -1)
    lhs, rhs = lhs * sign, rhs * sign
    return {ast.Lt: lhs < rhs, ast.LtE: lhs <= rhs, ast.Gt: lhs > rhs, ast.GtE: lhs >= rhs}[type(op)]


def bytes_repeat(ex, a, b, st):
    sa = z3.simplify(a.z)
    if z3.is_string_value(sa) and len(z3_to_bytes(sa)) == 1:
        # c * n : a string of n copies of c, n small and bounded by the caller's path condition
        r = fresh("rep", S)
        n = b.z
        st.fact(z3.Length(r) == zmax(n, z3.IntVal(0)))
        st.fact(z3.InRe(r, z3.Star(z3.Re(sa))))
        return VBytes(r)
    raise Unsupported("bytes * int")


def big_set_member(ex, container, x, st):
    f = uf(ex, "MEMBER_" + (container.name.replace(".", "_") or "set"), S, B)
    ex.assumed.add(f"membership in {container.name} ({len(container.obj)} elements) is an uninterpreted predicate")
    return f(x.z)


# ---------------------------------------------------------------------------------------------- opaque library objects (registry.py)
OBJ_ATTRS = {("modinfo", "name"): "str"}
INTROSPECTION_ASSUMED = ("pkgutil.iter_modules / importlib.import_module / inspect.getmembers / hasattr are total and deterministic: the module infos of a package path, the module a name "
                         "imports to, the (name, object) members of a module and whether an object carries an attribute are uninterpreted functions of their arguments")


def objref_attr(ex, obj, attr, st):
    kind = OBJ_ATTRS.get((obj.cls, attr))
    if kind == "str":
        return VStr(uf(ex, f"ATTR_{obj.cls}_{attr}", I, S)(obj.z))
    raise Unsupported(f"attribute {attr} of an opaque {obj.cls}")


# ---------------------------------------------------------------------------------------------- JSON objects (json_conversion.py)
JSON_ASSUMED = ("JSON objects are finite immutable records with the six keys of node_to_dict, each of the type node_to_dict gives it (str, hex str, str, int, int, list of such objects); "
                "a dict display with exactly these keys allocates such a record; bytes.hex / bytes.fromhex are inverse on the image of hex")


def json_field(ex, j, key):
    kind = JSON_FIELDS[key]
    if kind == "str":
        return VStr(uf(ex, "J_" + key, I, S)(j.z))
    if kind == "int":
        return VInt(uf(ex, "J_" + key, I, I)(j.z))
    arr = uf(ex, "J_children", I, z3.ArraySort(I, I))(j.z)
    n = uf(ex, "J_nchildren", I, I)(j.z)
    return VList(arr, n, "json")


def json_get(ex, j, key, st):
    ex.assumed.add(JSON_ASSUMED)
    if key not in JSON_FIELDS:
        raise Unsupported(f"JSON key {key!r}")
    v = json_field(ex, j, key)
    if isinstance(v, VList) and not getattr(st, "in_binder", 0):
        st.fact(v.n >= 0)
        # JSON values are finite: every entry of d["children"] is strictly shallower than d
        dep = uf(ex, "JDEPTH", I, I)
        k = fresh("k", I)
        st.fact(dep(j.z) >= 0)
        st.assume(z3.ForAll([k], z3.Implies(z3.And(0 <= k, k < v.n), z3.And(dep(v.arr[k]) >= 0, dep(v.arr[k]) < dep(j.z)))))
    return v


def json_make(ex, items, st):
    """{"type": .., "value": .., ...}: a fresh record whose fields are the given values."""
    ex.assumed.add(JSON_ASSUMED)
    if set(items) != set(JSON_FIELDS):
        raise Unsupported(f"dict display with keys {sorted(items)} (only the node_to_dict shape is modelled)")
    j = VJson(fresh("json", I))
    for key, v in items.items():
        f = json_field(ex, j, key)
        if isinstance(f, VList):
            if not isinstance(v, VList) or v.ek not in ("json", None):
                raise Unsupported("JSON children must be a list of JSON objects")
            if v.ek is None:
                st.fact(f.n == 0)
            else:
                k = fresh("k", I)
                st.fact(f.n == v.n)
                st.assume(z3.ForAll([k], z3.Implies(z3.And(0 <= k, k < v.n), f.arr[k] == v.arr[k])))
        else:
            if type(f) is not type(v):
                raise Unsupported(f"JSON field {key}: {v}")
            st.fact(f.z == v.z)
    return j


# ---------------------------------------------------------------------------------------------- slices
def do_slice(ex, base, lo, hi, step, st):
    if isinstance(base, VBytes) or isinstance(base, VStr):
        cls = type(base)
        if step in (None, 1):
            n_ = z3.Length(base.z)
            a_ = z3.IntVal(0) if lo is None else lo
            b_ = n_ if hi is None else hi
            negc = any(v is not None and z3.is_int_value(z3.simplify(v)) and z3.simplify(v).as_long() < 0 for v in (lo, hi))
            if getattr(ex, "spec_mode", False) and not getattr(ex, "in_recdef", 0) and not getattr(st, "in_binder", 0) and not getattr(ex, "force_uf", False) and "slice" not in ex.c.opaque and not negc:
                # a slice written in a CONTRACT: the symbol with its in-range definition only (no clamping case analysis; an out-of-range slice of a
                # specification is simply left unconstrained, which can only make a proof harder)
                t = uf(ex, "SLICE", S, I, I, S)(base.z, a_, b_)
                st.fact(z3.And(z3.Implies(z3.And(0 <= a_, a_ <= b_), z3.And(t == z3.SubString(base.z, a_, b_ - a_), z3.Length(t) == z3.If(b_ <= n_, b_ - a_, z3.If(a_ <= n_, n_ - a_, 0)))),
                               z3.Implies(z3.And(0 <= b_, b_ < a_), t == z3.StringVal("")),
                               z3.Implies(z3.Or(a_ < 0, b_ < 0), t == str_slice(base.z, lo, hi))))  # negative bounds: Python's clamping rules
                return cls(t)
            res = sop(ex, st, "SLICE", [base.z, a_, b_], S, lambda: str_slice(base.z, lo, hi))
            if not getattr(st, "in_binder", 0):
                ca = z3.IntVal(0) if lo is None else clamp_index(lo, n_)
                cb = n_ if hi is None else clamp_index(hi, n_)
                st.fact(z3.Length(res) == zmax(cb - ca, z3.IntVal(0)))  # ground length fact (survives string abstraction)
            return cls(res)
        if step == -1:
            n = z3.Length(base.z)

            def norm(v, default):
                if v is None:
                    return default
                return z3.If(v < 0, zmax(v + n, z3.IntVal(-1)), zmin(v, n - 1))

            a = norm(lo, n - 1)
            b = norm(hi, z3.IntVal(-1))
            sub = z3.SubString(base.z, b + 1, zmax(a - b, z3.IntVal(0)))
            return cls(rev_of(ex, sub, st))
        raise Unsupported(f"slice step {step}")
    if isinstance(base, VList):
        if base.ek is None:
            return base
        if step in (None, 1):
            n = base.n
            if getattr(ex, "spec_mode", False) and lo is None and hi is not None:
                return VList(base.arr, hi, base.ek)  # specifications slice within range by convention
            a = z3.IntVal(0) if lo is None else clamp_index(lo, n)
            b = n if hi is None else clamp_index(hi, n)
            a_s = z3.simplify(a)
            if z3.is_int_value(a_s) and a_s.as_long() == 0:
                return VList(base.arr, zmax(b, z3.IntVal(0)), base.ek)
            # shifted view
            k = fresh("k", I)
            arr = z3.Lambda([k], base.arr[k + a])
            return VList(arr, zmax(b - a, z3.IntVal(0)), base.ek)
        if step == -1 and lo is None and hi is None:
            k = fresh("k", I)
            arr = z3.Lambda([k], base.arr[base.n - 1 - k])
            return VList(arr, base.n, base.ek)
        raise Unsupported("list slice with step")
    raise Unsupported(f"slice of {base}")


def subscript(ex, base, idx, st):
    raise Unsupported(f"subscript of {base} by {idx}")


def obj_attr(ex, obj, attr, st):
    if obj.cls == "Multidecoder" and attr == "decoders":
        obj.attrs["decoders"] = VObj("registry", {})
        return obj.attrs["decoders"]
    if obj.cls == "urlsplit" and attr in ("port", "hostname"):
        from .regexlib import urlsplit_attr

        return urlsplit_attr(ex, obj, attr, st)
    raise Unsupported(f"attribute {attr} of {obj}")


# ---------------------------------------------------------------------------------------------- methods
def method(ex, recv, name, args, kwargs, st, recv_node, call_node):
    if isinstance(recv, VBytes) or isinstance(recv, VStr):
        return bytes_method(ex, recv, name, args, kwargs, st)
    if isinstance(recv, VList):
        return list_method(ex, recv, name, args, kwargs, st, recv_node)
    if isinstance(recv, VObj):
        from . import regexlib

        return regexlib.obj_method(ex, recv, name, args, kwargs, st)
    raise Unsupported(f"method {name} on {recv}")


def find_like(ex, s, sub, start, end, st, reverse=False):
    n = z3.Length(s)
    if reverse and start is None and end is None:
        return z3.LastIndexOf(s, sub)
    a = z3.IntVal(0) if start is None else clamp_index(start, n)
    if end is not None or reverse:
        # restricted to a window: encode through the substring
        b = n if end is None else clamp_index(end, n)
        win = z3.SubString(s, a, zmax(b - a, z3.IntVal(0)))
        if reverse:
            r = z3.LastIndexOf(win, sub)
        else:
            r = z3.IndexOf(win, sub, z3.IntVal(0))
        return z3.If(z3.And(r >= 0, a <= b), r + a, z3.IntVal(-1))
    if "find" in ex.c.opaque:
        f = uf(ex, "FIND", S, S, I, I)
        raw = z3.IntVal(0) if start is None else start
        r = f(s, sub, raw)
        m = z3.Length(sub)
        if not getattr(st, "in_binder", 0):
            sl = sop(ex, st, "SLICE", [s, r, r + m], S, lambda: str_slice(s, r, r + m))
            st.fact(z3.Or(r == -1, z3.And(r >= raw, r >= 0, r + m <= n, sl == sub)))
        ex.assumed.add("bytes.find(sub, start): -1 or a position >= start where sub occurs (uninterpreted FIND; the specification uses the same function)")
        return r
    r = z3.IndexOf(s, sub, a)
    if not getattr(st, "in_binder", 0):
        # the integer content of the result, stated as a ground fact so that it survives the abstraction of strings (redundant for the native solver)
        st.fact(z3.Or(r == -1, z3.And(r >= a, r >= 0, r + z3.Length(sub) <= n)))
    return r


def bytes_method(ex, recv, name, args, kwargs, st):
    s = recv.z
    cls = type(recv)
    cp = getattr(recv, "codepoint", None)
    if cp is not None and name in ("isupper", "islower"):
        # chr(v).isupper(): str semantics (Latin-1 for v < 256); larger code points are outside the table
        ex.raise_if(st, z3.Or(cp < 0, cp > 255), "Unsupported", "str.isupper()/islower() beyond Latin-1 is not modelled")
        ex.assumed.add("chr(v).isupper()/islower() for v < 256: table read from the running CPython")
        return VBool(latin1_pred(name, cp))
    if name in ("find", "rfind", "index"):
        sub = args[0]
        if isinstance(sub, VInt):
            subz = sub.char if sub.char is not None else z3.StrFromCode(sub.z)
        else:
            subz = sub.z
        start = args[1].z if len(args) > 1 else None
        end = args[2].z if len(args) > 2 else None
        r = find_like(ex, s, subz, start, end, st, reverse=(name == "rfind"))
        if name == "index":
            ex.raise_if(st, r < 0, "ValueError", "bytes.index")
        return VInt(r)
    if name in ("startswith", "endswith"):
        a = args[0]
        alts = a.items if isinstance(a, VTuple) else [a]
        fn = z3.PrefixOf if name == "startswith" else z3.SuffixOf
        return VBool(z3.Or(*[fn(x.z, s) for x in alts]))
    if name == "lower":
        return cls(lower_of(ex, s, st))
    if name == "upper":
        return cls(upper_of(ex, s, st))
    if name == "isalnum":
        return VBool(sop(ex, st, "ISALNUM", [s], B, lambda: z3.InRe(s, z3.Plus(ALNUM))))
    if name == "isupper":
        # at least one cased byte and no lower-case ASCII byte
        nolow = z3.Star(z3.Union(z3.Range(chr(0), chr(96)), z3.Range(chr(123), chr(255))))
        return VBool(z3.And(z3.InRe(s, nolow), z3.InRe(s, z3.Concat(z3.Star(ANYCH), UPPER, z3.Star(ANYCH)))))
    if name == "islower":
        noup = z3.Star(z3.Union(z3.Range(chr(0), chr(64)), z3.Range(chr(91), chr(255))))
        return VBool(z3.And(z3.InRe(s, noup), z3.InRe(s, z3.Concat(z3.Star(ANYCH), LOWER, z3.Star(ANYCH)))))
    if name == "replace":
        r = z3_replace_all(s, args[0].z, args[1].z)
        a_, b_ = args[0].z, args[1].z
        if not z3.is_app_of(r, z3.Z3_OP_SEQ_REPLACE_ALL):
            # uninterpreted REPLACE_ALL with ground facts: nothing to replace -> unchanged; a non-empty replacement of a non-empty pattern never empties a text
            ex.assumed.add("bytes.replace (all occurrences): uninterpreted; unchanged when the pattern does not occur; for non-empty pattern and replacement the result is empty iff the text is; "
                           "never shorter when the replacement is at least as long as the pattern")
            st.fact(z3.And(z3.Implies(z3.Not(z3.Contains(s, a_)), r == s),
                           z3.Implies(z3.And(z3.Length(a_) > 0, z3.Length(b_) > 0), (z3.Length(r) == 0) == (z3.Length(s) == 0)),
                           z3.Implies(z3.And(z3.Length(a_) > 0, z3.Length(b_) >= z3.Length(a_)), z3.Length(r) >= z3.Length(s))))
        return cls(r)
    if name == "isprintable" and not args:
        ex.assumed.add("str.isprintable(): total, an uninterpreted predicate of the text")
        return VBool(uf(ex, "ISPRINTABLE", S, B)(s))
    if name == "count":
        f = uf(ex, "COUNT", S, S, I)
        r = f(s, args[0].z)
        st.fact(z3.And(r >= 0, r <= z3.Length(s) + 1))
        m = z3.Length(args[0].z)
        st.fact(z3.Implies(m > 0, r * m <= z3.Length(s)))
        st.fact((r == 0) == z3.Not(z3.Contains(s, args[0].z)))
        ex.assumed.add("bytes.count(sub): uninterpreted, 0 <= count*len(sub) <= len, count == 0 iff sub not in s")
        return VInt(r)
    if name in ("strip", "lstrip", "rstrip"):
        from . import regexlib

        return regexlib.strip_model(ex, recv, args, st, {"strip": "both", "lstrip": "left", "rstrip": "right"}[name])
    if name in ("isdigit", "isalpha", "isspace") and not args:
        # bytes only: the ASCII classes, exactly (str would need the Unicode tables)
        if recv.kind != "bytes":
            raise Unsupported(f"str.{name} (Unicode classes are not modelled)")
        rng_ = {"isdigit": z3.Range("0", "9"), "isalpha": z3.Union(UPPER, LOWER),
                "isspace": z3.Union(*[z3.Re(z3.StringVal(c)) for c in " \t\n\r\x0b\x0c"])}[name]
        return VBool(sop(ex, st, name.upper(), [s], B, lambda: z3.InRe(s, z3.Plus(rng_))))
    if name in ("split", "rsplit", "splitlines", "join", "decode", "encode", "hex"):
        from . import regexlib

        return regexlib.str_method(ex, recv, name, args, kwargs, st)
    raise Unsupported(f"bytes.{name}")


def z3_replace_all(s, a, b):
    return z3.ReplaceAll(s, a, b) if hasattr(z3, "ReplaceAll") else _replace_all(s, a, b)


def _replace_all(s, a, b):
    f = z3.Function("REPLACE_ALL", S, S, S, S)
    return f(s, a, b)


def list_method(ex, recv, name, args, kwargs, st, recv_node):
    if name == "append":
        x = args[0]
        if isinstance(x, VObjRef):
            if recv.ek is None:
                recv = VList(z3.K(I, z3.IntVal(0)), recv.n, "obj:" + x.cls, recv.owner)
            if recv.ek != "obj:" + x.cls:
                raise Unsupported(f"append of an opaque {x.cls} to list[{recv.ek}]")
            ex.store_back(recv_node, VList(z3.Store(recv.arr, recv.n, x.z), recv.n + 1, recv.ek, recv.owner), st)
            return VNone()
        if recv.ek is None:
            ek = {"int": "int", "bytes": "bytes", "ref": "ref", "str": "str"}.get(x.kind)
            if ek is None:
                raise Unsupported(f"append of {x.kind}")
            arr = z3.K(I, z3.IntVal(0)) if ek in ("int", "ref") else z3.K(I, z3.StringVal(""))
            bb = z3.StringVal("") if ek in ("int", "bytes") else None
            recv = VList(arr, recv.n, ek, recv.owner, bb)
        if recv.ek != x.kind and not (recv.ek == "ref" and isinstance(x, VRef)):
            raise Unsupported(f"append {x.kind} to list[{recv.ek}]")
        bb = None
        if recv.ek == "bytes" and recv.bytebuf is not None:
            bb = z3.Concat(recv.bytebuf, x.z)
        if recv.ek == "int" and recv.bytebuf is not None:
            ch = x.char if x.char is not None else z3.StrFromCode(x.z)
            bb = z3.Concat(recv.bytebuf, ch)
            if x.char is None:
                bb = None  # an arbitrary int: stop tracking as a byte buffer
        newl = VList(z3.Store(recv.arr, recv.n, x.z), recv.n + 1, recv.ek, recv.owner, bb)
        ex.store_back(recv_node, newl, st)
        return VNone()
    if name == "pop":
        if args:
            raise Unsupported("pop(i)")
        if recv.ek is None:
            ex.raise_if(st, z3.BoolVal(True), "IndexError", "pop from empty list")
            return VNone()
        ex.raise_if(st, recv.n <= 0, "IndexError", "pop from empty list")
        newl = VList(recv.arr, recv.n - 1, recv.ek, recv.owner)
        ex.store_back(recv_node, newl, st)
        e = elem_val(recv.ek, recv.arr[recv.n - 1])
        if recv.ek == "ref":
            st.fact(z3.Implies(recv.n > 0, z3.And(e.z >= 0, e.z < st.alloc)))
        return e
    if name == "extend":
        other = args[0]
        if not isinstance(other, VList):
            raise Unsupported("extend with non-list")
        if other.ek is None:
            return VNone()
        if recv.ek is None:
            ex.store_back(recv_node, VList(other.arr, other.n, other.ek, recv.owner), st)
            return VNone()
        k = fresh("k", I)
        arr = z3.Lambda([k], z3.If(k < recv.n, recv.arr[k], other.arr[k - recv.n]))
        ex.store_back(recv_node, VList(arr, recv.n + other.n, recv.ek, recv.owner), st)
        return VNone()
    raise Unsupported(f"list.{name}")


# ---------------------------------------------------------------------------------------------- builtin functions
def call_py(ex, obj, name, node, st):
    import builtins

    short = name.split(".")[-1]
    if getattr(obj, "__name__", "") == "get" and isinstance(getattr(obj, "__self__", None), dict):
        # CONSTANT_DICT.get(key, default) with a symbolic key: one of the dictionary's values, or the default
        d = obj.__self__
        args, _ = ex.eval_args(node, st)
        if len(args) != 2 or not all(isinstance(v, str) for v in d.values()) or not isinstance(args[1], VStr):
            raise Unsupported("dict.get outside the supported form (str values, explicit str default)")
        r = fresh("dictget", S)
        vals = sorted(set(d.values()))
        st.fact(z3.Or(r == args[1].z, *[r == z3.StringVal(v) for v in vals]))
        return VStr(r)
    import importlib as _importlib
    import inspect as _inspect
    import pkgutil as _pkgutil
    import struct as _struct

    if obj is _pkgutil.iter_modules:
        ex.assumed.add(INTROSPECTION_ASSUMED)
        n = uf(ex, "N_MODULES", I)()
        st.fact(n >= 0)
        return VList(uf(ex, "MODULES", ArrII)(), n, "obj:modinfo")
    if obj is _importlib.import_module:
        ex.assumed.add(INTROSPECTION_ASSUMED)
        args, _kw = ex.eval_args(node, st)
        if not isinstance(args[0], VStr):
            raise Unsupported("import_module of a non-str")
        return VObjRef("module", uf(ex, "IMPORTED", S, I)(args[0].z))
    if obj is _inspect.getmembers:
        ex.assumed.add(INTROSPECTION_ASSUMED)
        args, _kw = ex.eval_args(node, st)
        if not (isinstance(args[0], VObjRef) and args[0].cls == "module"):
            raise Unsupported("inspect.getmembers of something other than an imported module")
        n = uf(ex, "N_MEMBERS", I, I)(args[0].z)
        st.fact(n >= 0)
        return VList(uf(ex, "MEMBERS", I, ArrII)(args[0].z), n, "obj:member")
    if obj is builtins.hasattr:
        args, _kw = ex.eval_args(node, st)
        nm = z3.simplify(args[1].z) if isinstance(args[1], VStr) else None
        if not isinstance(args[0], VObjRef) or nm is None or not z3.is_string_value(nm):
            raise Unsupported("hasattr outside the supported form (opaque object, constant name)")
        ex.assumed.add(INTROSPECTION_ASSUMED)
        return VBool(uf(ex, "HASATTR_" + nm.as_string(), I, B)(args[0].z))
    if obj is builtins.set and len(node.args) == 1 and isinstance(node.args[0], ast.Name) and isinstance(st.store.get(node.args[0].id), VObj) and st.store[node.args[0].id].cls == "strs":
        return st.store[node.args[0].id]  # set(xs) of an iterable of strings: the same members, empty exactly when xs is

    if obj is _struct.unpack_from:
        # struct.unpack_from(fmt, buffer, offset) for the little-endian 32-bit format: needs offset >= 0 and 4 bytes; yields one unsigned 32-bit integer
        args, _ = ex.eval_args(node, st)
        fmt = args[0]
        if not (isinstance(fmt, VStr) and z3.is_string_value(z3.simplify(fmt.z)) and z3.simplify(fmt.z).as_string() == "<I") or len(args) != 3:
            raise Unsupported("struct.unpack_from outside the supported form ('<I', buffer, offset)")
        buf, off = args[1], args[2]
        ex.raise_if(st, z3.Or(off.z < 0, off.z + 4 > z3.Length(buf.z)), "struct.error", "unpack_from")
        ex.assumed.add("struct.unpack_from('<I', b, off): raises struct.error iff off < 0 or off + 4 > len(b); otherwise one integer in [0, 2**32)")
        r = fresh("u32", I)
        st.fact(z3.And(0 <= r, r < 2**32))
        return VTuple([VInt(r)])
    if obj is builtins.len:
        (a,), _ = ex.eval_args(node, st)
        if isinstance(a, VObj) and a.cls == "strs":
            n_ = uf(ex, "LEN_STRS", I, I)(a.attrs["_id"])
            st.fact(z3.And(n_ >= 0, (n_ != 0) == a.attrs["_truthy"]))
            return VInt(n_)
        if isinstance(a, VPy) and isinstance(a.obj, dict) and not a.obj:
            return VInt(0)
        if isinstance(a, (VBytes, VStr)):
            return VInt(z3.Length(a.z))
        if isinstance(a, VList):
            return VInt(a.n)
        if isinstance(a, VTuple):
            return VInt(len(a.items))
        if isinstance(a, VPy) and hasattr(a.obj, "__len__"):
            return VInt(len(a.obj))
        raise Unsupported(f"len of {a}")
    if obj is builtins.ord:
        (a,), _ = ex.eval_args(node, st)
        if isinstance(a, (VBytes, VStr)):
            sa = z3.simplify(a.z)
            if z3.is_string_value(sa):
                return VInt(ord(z3_to_bytes(sa).decode("latin-1")))
            ex.raise_if(st, z3.Length(a.z) != 1, "TypeError", "ord")
            return VInt(z3.StrToCode(a.z), char=a.z)
        raise Unsupported("ord")
    if obj is builtins.bool:
        (a,), _ = ex.eval_args(node, st)
        return VBool(ex.truthy(a, st))
    if obj is builtins.min or obj is builtins.max:
        args, kw = ex.eval_args(node, st)
        if len(args) == 2 and all(isinstance(a, VInt) for a in args):
            f = zmin if obj is builtins.min else zmax
            return VInt(f(args[0].z, args[1].z))
        from . import regexlib

        return regexlib.minmax(ex, obj is builtins.max, args, kw, st)
    if obj is builtins.isinstance:
        args, _ = ex.eval_args(node, st)
        v, t = args
        tn = getattr(t.obj, "__name__", "?") if isinstance(t, VPy) else "?"
        k = {"bytes": VBytes, "str": VStr, "int": VInt, "Node": VRef}.get(tn)
        if k is None:
            raise Unsupported(f"isinstance(.., {tn})")
        if k is VRef and isinstance(v, VRef):
            return VBool(v.z != -1)
        return VBool(isinstance(v, k))
    if obj is builtins.bytes:
        args, _ = ex.eval_args(node, st)
        if not args:
            return VBytes(b"")
        a = args[0]
        if isinstance(a, VList):
            return bytes_of_list(ex, a, st)
        if isinstance(a, VBytes):
            return a
        raise Unsupported(f"bytes({a})")
    if obj is builtins.str:
        (a,), _ = ex.eval_args(node, st)
        if isinstance(a, VInt):
            return VStr(z3.IntToStr(a.z)) if True else None
        if isinstance(a, VStr):
            return a
        raise Unsupported("str()")
    from . import regexlib

    return regexlib.call_py(ex, obj, name, node, st)


def bytes_of_list(ex, a: VList, st):
    """bytes(list_of_ints): ValueError unless every element is in range(256)."""
    if a.ek is None:
        return VBytes(b"")
    if a.ek != "int":
        raise Unsupported("bytes(list of non-int)")
    if a.bytebuf is not None:
        # every element was appended as the code of a byte
        return VBytes(a.bytebuf)
    arb = getattr(a, "arbitrary", None)
    if arb is not None:
        # list built by a comprehension: the range condition is proved of the arbitrary element in the body's state
        i_, e_, sc_ = arb
        allowed = any(cls in ex.c.raises or cls in ex.c.raises_iff for cls in exc_supers("ValueError"))
        if any(h in exc_supers("ValueError") for h in getattr(ex, "comp_handlers", [])):
            # inside try/except ValueError: an element outside range(256) is a raise the handler catches
            ex.raise_if(st, fresh("bytes_elem_out_of_range", B), "ValueError", "bytes() element not in range(256)")
        elif not allowed:
            ex.oblige(sc_, "safe", f"ValueError@L{getattr(ex, 'cur_line', 0) - ex.fn.lineno}:bytes() element in range(256) (comprehension element)", z3.And(e_.z >= 0, e_.z <= 255), getattr(ex, "cur_line", 0))
        r = fresh("bytes", S)
        st.fact(z3.Length(r) == a.n)
        return VBytes(r)
    k = fresh("k", I)
    ex.raise_if(st, z3.Exists([k], z3.And(0 <= k, k < a.n, z3.Or(a.arr[k] < 0, a.arr[k] > 255))), "ValueError", "bytes() element not in range(256)")
    r = fresh("bytes", S)
    st.fact(z3.Length(r) == a.n)
    f = uf(ex, "BYTEAT", S, I, I)
    # element facts are instantiated through BYTEAT: code of r[k] == a[k]
    j = fresh("j", I)
    st.assume(z3.ForAll([j], z3.Implies(z3.And(0 <= j, j < a.n), f(r, j) == a.arr[j]), patterns=[f(r, j)]))
    return VBytes(r)


def call_callable(ex, c, args, st):
    raise Unsupported("call of an opaque callable")


# ---------------------------------------------------------------------------------------------- spec-level forms
def _quant(ex, node, st, is_forall):
    rng, lam = node.args
    if not isinstance(lam, ast.Lambda):
        raise Unsupported("forall/exists needs a lambda")
    names = [a.arg for a in lam.args.args]
    # range(a, b) or range(b), possibly a tuple of ranges for several variables
    ranges = rng.elts if isinstance(rng, ast.Tuple) else [rng]
    bvars, conds = [], []
    view = st.clone()
    view.in_binder += 1
    view.bound = dict(getattr(st, "bound", {}))
    for nm, r in zip(names, ranges):
        bv = fresh(nm, I)
        bvars.append(bv)
        if isinstance(r, ast.Call) and isinstance(r.func, ast.Name) and r.func.id == "range":
            a = [ex.eval(x, view).z for x in r.args]
            lo, hi = (z3.IntVal(0), a[0]) if len(a) == 1 else (a[0], a[1])
            conds.append(z3.And(lo <= bv, bv < hi))
        elif isinstance(r, ast.Name) and r.id == "refs":
            conds.append(z3.And(0 <= bv, bv < view.alloc))
            view.store[nm] = VRef(bv)
            view.bound[nm] = VRef(bv)
            continue
        elif isinstance(r, ast.Name) and r.id == "cells":
            # every heap index, allocated or not (frame statements: two heaps agree on ALL cells from some index on)
            view.store[nm] = VRef(bv)
            view.bound[nm] = VRef(bv)
            continue
        elif isinstance(r, ast.Name) and r.id == "ints":
            pass
        else:
            raise Unsupported("quantifier range")
        view.store[nm] = VInt(bv)
        view.bound[nm] = VInt(bv)
    body = ex.truthy(ex.eval(lam.body, view), view)
    # Type-invariant facts produced under the binder mention bound variables: they are dropped (for a hypothesis this
    # relies on their validity as type invariants; for a goal it only makes the goal stronger).
    if is_forall:
        return VBool(z3.ForAll(bvars, z3.Implies(z3.And(*conds), body)))
    return VBool(z3.Exists(bvars, z3.And(*conds, body)))


def sf_forall(ex, node, st):
    return _quant(ex, node, st, True)


def sf_exists(ex, node, st):
    return _quant(ex, node, st, False)


def sf_implies(ex, node, st):
    a = ex.truthy(ex.eval(node.args[0], st), st)
    st.guards.append(a)
    b = ex.truthy(ex.eval(node.args[1], st), st)
    st.guards.pop()
    return VBool(z3.Implies(a, b))


def sf_iff(ex, node, st):
    a = ex.truthy(ex.eval(node.args[0], st), st)
    b = ex.truthy(ex.eval(node.args[1], st), st)
    return VBool(a == b)


def sf_old(ex, node, st):
    if st.old is None:
        raise Unsupported("old() without an entry state")
    view = st.old.clone()
    view.path = st.path
    view.facts_seen = st.facts_seen
    view.in_binder = st.in_binder
    view.store = dict(view.store)
    view.store.update(getattr(st, "bound", {}))
    return ex.eval(node.args[0], view)


def sf_at(ex, node, st):
    """at(label, expr): expr evaluated in a labelled earlier state (loop heads are labelled L<k>)."""
    lab = node.args[0].id if isinstance(node.args[0], ast.Name) else node.args[0].value
    if lab not in st.labels:
        if lab not in ex.c.labels:
            raise Unsupported(f"no state labelled {lab}")
        # a statement label of the contract that this path never reached: the labelled state does not exist here, so nothing may be known about it -
        # the expression is read in a state with an arbitrary heap (a clause that needs it on such a path cannot be proved)
        from .exec import new_heap

        view = st.clone()
        view.heap = new_heap(f"unreached_{lab}")
        view.store = dict(st.store)
        view.store.update(getattr(st, "bound", {}))
        return ex.eval(node.args[1], view)
    view = st.labels[lab].clone()
    view.path = st.path
    view.facts_seen = st.facts_seen
    view.in_binder = st.in_binder
    lab_store = view.store
    view.store = dict(st.store)  # names that did not exist yet (loop variables) denote their current value
    view.store.update(lab_store)
    view.store.update(getattr(st, "bound", {}))
    return ex.eval(node.args[1], view)


def sf_rev(ex, node, st):
    a = ex.eval(node.args[0], st)
    return type(a)(rev_of(ex, a.z, st))


def sf_lower(ex, node, st):
    a = ex.eval(node.args[0], st)
    return type(a)(lower_of(ex, a.z, st))


def sf_fresh(ex, node, st):
    """fresh(r): r was allocated during this activation."""
    a = ex.eval(node.args[0], st)
    return VBool(z3.And(a.z >= ex.entry.alloc, a.z < st.alloc))

def sf_allocated(ex, node, st):
    a = ex.eval(node.args[0], st)
    return VBool(z3.And(a.z >= 0, a.z < st.alloc))


def sf_nchildren(ex, node, st):
    a = ex.eval(node.args[0], st)
    return VInt(st.heap["nchildren"][a.z])


def sf_child(ex, node, st):
    a = ex.eval(node.args[0], st)
    i = ex.eval(node.args[1], st)
    return VRef(st.heap["children"][a.z][i.z])


def sf_bytes_of(ex, node, st):
    a = ex.eval(node.args[0], st)
    if isinstance(a, VList) and a.bytebuf is not None:
        return VBytes(a.bytebuf)
    if isinstance(a, VList) and a.ek is None:
        return VBytes(b"")
    raise Unsupported("bytes_of on an untracked list")


def sf_height(ex, node, st):
    a = ex.eval(node.args[0], st)
    return VInt(uf(ex, "HEIGHT", I, I)(a.z))


def sf_lo(ex, node, st):
    a = ex.eval(node.args[0], st)
    return VInt(uf(ex, "LO", I, I)(a.z))


def hi_term(ex, z):
    """hi(r) := lo(r) + |SPAN(r)|: every ghost interval numbering has lo <= hi by construction."""
    sp = uf(ex, "SPAN", I, I)(z)
    return uf(ex, "LO", I, I)(z) + z3.If(sp >= 0, sp, -sp)


def sf_hi(ex, node, st):
    a = ex.eval(node.args[0], st)
    return VInt(hi_term(ex, a.z))


def sf_alloc(ex, node, st):
    return VInt(st.alloc)


def sf_called(ex, node, st):
    """called('f', a1, a2, ...): during this loop iteration a call f(.., a1, a2, ..) was made through f's contract
    (the given values are compared with the LAST arguments of the call, so `self` may be omitted)."""
    name = node.args[0].value
    want = [ex.eval(a, st) for a in node.args[1:]]
    start = len(st.labels["old"].calllog) if "old" in st.labels else 0
    alts = []
    for nm, argv in st.calllog[start:]:
        if nm != name:
            continue
        tail = argv[len(argv) - len(want) :] if want else []
        if len(tail) != len(want):
            continue
        alts.append(z3.And(*[ex.equal(x, y, st) for x, y in zip(tail, want)]) if want else z3.BoolVal(True))
    return VBool(z3.Or(*alts) if alts else z3.BoolVal(False))


def latin1_pred(which, z):
    """chr(v).isupper() / .islower() for 0 <= v < 256, table read from the running CPython."""
    vals = [c for c in range(256) if getattr(chr(c), which)()]
    ranges, start, prev = [], None, None
    for c in vals:
        if start is None:
            start = prev = c
        elif c == prev + 1:
            prev = c
        else:
            ranges.append((start, prev))
            start = prev = c
    if start is not None:
        ranges.append((start, prev))
    return z3.Or(*[z3.And(z >= a, z <= b) if a != b else z == a for a, b in ranges])


def sf_latin1_upper(ex, node, st):
    return VBool(latin1_pred("isupper", ex.eval(node.args[0], st).z))


def sf_latin1_lower(ex, node, st):
    return VBool(latin1_pred("islower", ex.eval(node.args[0], st).z))


def sf_canon_quad(ex, node, st):
    """canon_quad(text): text is a canonical dotted quad - an uninterpreted predicate with one ground fact: it lies in the
    obvious regular language (four groups of one to three digits)."""
    a = ex.eval(node.args[0], st)
    f = uf(ex, "CANON_QUAD", S, B)
    r = f(a.z)
    if not getattr(st, "in_binder", 0):
        d = z3.Loop(z3.Range("0", "9"), 1, 3)
        st.fact(z3.Implies(r, z3.InRe(a.z, z3.Concat(d, z3.Re("."), d, z3.Re("."), d, z3.Re("."), d))))
    return VBool(r)


def sf_origin(ex, node, st):
    """origin(sorted_list, j): GHOST position, in the iterable that was sorted, of the j-th element of the result of sorted()."""
    lst = ex.eval(node.args[0], st)
    j = ex.eval(node.args[1], st)
    pi = getattr(lst, "origin", None)
    if pi is None:
        raise Unsupported("origin() of a list that is not the result of sorted()")
    return VInt(pi[j.z])


def _url_part(which):
    def f(ex, node, st):
        from .regexlib import url_parts

        a = ex.eval(node.args[0], st)
        v = url_parts(ex, a.z)[which]
        return VBool(v) if which.startswith("has") else VBytes(v)

    return f


def sf_matches(ex, node, st):
    """matches(PATTERN, text): text is in L(PATTERN°) - the language of the real pattern constant, look-arounds erased."""
    from . import regex2smt as R2

    p = ex.eval(node.args[0], st)
    t = ex.eval(node.args[1], st)
    pz = z3.simplify(p.z)
    if not z3.is_string_value(pz):
        raise Unsupported("matches() needs a constant pattern")
    lang, _ = R2.to_re(z3_to_bytes(pz))
    return VBool(z3.InRe(t.z, lang))


def sf_matches_group(ex, node, st):
    """matches_group(PATTERN, g, text): text is in the language of capture group g of the real pattern constant."""
    from . import regex2smt as R2

    p = ex.eval(node.args[0], st)
    g = int_const(ex.eval(node.args[1], st).z)
    t = ex.eval(node.args[2], st)
    _, groups = R2.to_re(z3_to_bytes(z3.simplify(p.z)))
    return VBool(z3.InRe(t.z, groups[g]))


def sf_nmatches(ex, node, st):
    """nmatches(PATTERN, text): the number of matches the function's own re.finditer(PATTERN, text) produced on this path (the regex
    contract does not say WHICH substrings match, so the count is that of the iterator the code made; at run time: the real count)."""
    p = ex.eval(node.args[0], st)
    t = ex.eval(node.args[1], st)
    pz = z3.simplify(p.z)
    if not z3.is_string_value(pz):
        raise Unsupported("nmatches() needs a constant pattern")
    pat = z3_to_bytes(pz)
    found = [it for (pb, dz, it) in getattr(st, "matchiters", []) if pb == pat and z3.eq(z3.simplify(dz), z3.simplify(t.z))]
    if len(found) != 1:
        raise AnchorMismatch(f"nmatches({pat[:30]!r}.., ..): the function makes {len(found)} finditer iterators over this pattern and text on this path (exactly one expected)")
    return VInt(found[0].attrs["n"])


def sf_b64decode(ex, node, st):
    a = ex.eval(node.args[0], st)
    return VBytes(uf(ex, "B64DEC", S, S)(a.z))


def sf_unquote(ex, node, st):
    a = ex.eval(node.args[0], st)
    return VBytes(uf(ex, "UNQUOTE", S, S)(a.z))


def sf_utf8(ex, node, st):
    a = ex.eval(node.args[0], st)
    return VBytes(uf(ex, "UTF8ENC", S, S)(a.z))


def sf_utf16(ex, node, st):
    a = ex.eval(node.args[0], st)
    return VStr(uf(ex, "UTF16DEC", S, S)(a.z))


def sf_unhexlify(ex, node, st):
    a = ex.eval(node.args[0], st)
    return VBytes(uf(ex, "UNHEX", S, S)(a.z))


def sf_xor(ex, node, st):
    a = ex.eval(node.args[0], st)
    b = ex.eval(node.args[1], st)
    W = 16
    return VInt(z3.BV2Int(z3.Int2BV(a.z, W) ^ z3.Int2BV(b.z, W), is_signed=False))


SPEC_FORMS = {
    "forall": sf_forall,
    "exists": sf_exists,
    "implies": sf_implies,
    "iff": sf_iff,
    "old": sf_old,
    "at": sf_at,
    "rev": sf_rev,
    "lower": sf_lower,
    "fresh": sf_fresh,
    "allocated": sf_allocated,
    "nchildren": sf_nchildren,
    "child_at": sf_child,
    "bytes_of": sf_bytes_of,
    "xor": sf_xor,
    "height": sf_height,
    "lo": sf_lo,
    "hi": sf_hi,
    "alloc": sf_alloc,
    "matches": sf_matches,
    "nmatches": sf_nmatches,
    "url_scheme": _url_part("scheme"),
    "url_netloc": _url_part("netloc"),
    "url_path": _url_part("path"),
    "url_query": _url_part("query"),
    "url_fragment": _url_part("fragment"),
    "jdepth": lambda ex, node, st: VInt(uf(ex, "JDEPTH", I, I)(ex.eval(node.args[0], st).z)),
    "hexstr": lambda ex, node, st: VStr(uf(ex, "HEXLIFY", S, S)(ex.eval(node.args[0], st).z)),
    "fromhex": lambda ex, node, st: VBytes(uf(ex, "FROMHEX", S, S)(ex.eval(node.args[0], st).z)),
    "is_hexstr": lambda ex, node, st: VBool(uf(ex, "ISHEXSTR", S, B)(ex.eval(node.args[0], st).z)),
    "urlsplit_raises": lambda ex, node, st: VBool(uf(ex, "URLSPLIT_RAISES", S, B)(ex.eval(node.args[0], st).z)),
    "url_has_host": lambda ex, node, st: (lambda t: VBool(z3.And(z3.Not(uf(ex, "URLHOSTNAME_NONE", S, B)(t)), z3.Length(uf(ex, "URLHOSTNAME", S, S)(t)) > 0)))(ex.eval(node.args[0], st).z),
    "url_has_netloc": _url_part("hasnl"),
    "url_has_query": _url_part("hasq"),
    "url_has_fragment": _url_part("hasf"),
    "origin": sf_origin,
    "canon_quad": sf_canon_quad,
    "latin1_upper": sf_latin1_upper,
    "latin1_lower": sf_latin1_lower,
    "called": sf_called,
    "matches_group": sf_matches_group,
    "unhexlify": sf_unhexlify,
    "b64decode": sf_b64decode,
    "unquote": sf_unquote,
    "utf8": sf_utf8,
    "utf16": sf_utf16,
}


def comprehension(ex, node, st, kind):
    from . import regexlib

    return regexlib.comprehension(ex, node, st, kind)


def match_at(ex, it, i, st):
    from . import regexlib

    return regexlib.match_at(ex, it, i, st)
