"""Symbolic values, sorts and small z3 helpers shared by the executor and the builtin tables."""
from __future__ import annotations

import z3

I = z3.IntSort()
B = z3.BoolSort()
S = z3.StringSort()
ArrII = z3.ArraySort(I, I)
ArrIS = z3.ArraySort(I, S)


class Unsupported(Exception):
    """A construct outside the supported subset: the function is UNDECIDED, never a violation."""


class UndefinedName(Unsupported):
    """A name that is not bound on the current path."""


class AnchorMismatch(Exception):
    """The contract no longer lines up with the code (loop count, missing function)."""


_counter = [0]


def fresh(prefix: str, sort):
    _counter[0] += 1
    return z3.Const(f"{prefix}!{_counter[0]}", sort)


def bytes_lit(b: bytes):
    """bytes literal -> z3 string (one char per byte, latin-1)."""
    # z3's python API escapes non-printable characters itself when given a str
    return z3.StringVal(b.decode("latin-1"))


def z3_to_bytes(val) -> bytes:
    """z3 string value (from a model) -> bytes (characters >= 256 are clipped, reported by the caller)."""
    s = val.as_string()
    out = bytearray()
    i = 0
    while i < len(s):
        if s.startswith("\\u{", i):
            j = s.index("}", i)
            out.append(int(s[i + 3 : j], 16) & 0xFF)
            i = j + 1
        elif s.startswith("\\x", i) and i + 4 <= len(s):
            out.append(int(s[i + 2 : i + 4], 16))
            i += 4
        else:
            out.append(ord(s[i]) & 0xFF)
            i += 1
    return bytes(out)


class V:
    kind = "?"


class VInt(V):
    kind = "int"

    def __init__(self, z, char=None):
        self.z = z if z3.is_expr(z) else z3.IntVal(z)
        self.char = char  # a length-1 string term this integer is the code of, if known

    def __repr__(self):
        return f"VInt({self.z})"


class VBool(V):
    kind = "bool"

    def __init__(self, z):
        self.z = z if z3.is_expr(z) else z3.BoolVal(bool(z))

    def __repr__(self):
        return f"VBool({self.z})"


class VBytes(V):
    kind = "bytes"

    def __init__(self, z):
        self.z = z if z3.is_expr(z) else bytes_lit(z)

    def __repr__(self):
        return f"VBytes({self.z})"


class VStr(V):
    kind = "str"

    def __init__(self, z):
        self.z = z if z3.is_expr(z) else z3.StringVal(z)

    def __repr__(self):
        return f"VStr({self.z})"


class VNone(V):
    kind = "none"

    def __repr__(self):
        return "VNone"


class VRef(V):
    """Reference to a Node object; -1 encodes None."""

    kind = "ref"

    def __init__(self, z):
        self.z = z if z3.is_expr(z) else z3.IntVal(z)

    def __repr__(self):
        return f"VRef({self.z})"


class _ElemSort(dict):
    def __missing__(self, k):
        if isinstance(k, str) and k.startswith("obj:"):
            return I  # opaque library objects (module infos, modules, functions) are identifiers
        raise KeyError(k)


ELEM_SORT = _ElemSort({"int": I, "ref": I, "bytes": S, "str": S, "bool": B, "json": I})


class VList(V):
    """A list value: (array, length).  `owner` is set when the list lives in the heap (node.children)."""

    kind = "list"

    def __init__(self, arr, n, ek, owner=None, bytebuf=None):
        self.arr, self.n, self.ek, self.owner = arr, n, ek, owner
        self.bytebuf = bytebuf  # for list[int] known to hold byte codes: the z3 string bytes(list) would give

    def __repr__(self):
        return f"VList[{self.ek}]({self.arr}, {self.n})"


class VTuple(V):
    kind = "tuple"

    def __init__(self, items):
        self.items = list(items)

    def __repr__(self):
        return f"VTuple({self.items})"


class VOpt(V):
    """`T | None` for a non-reference T."""

    kind = "opt"

    def __init__(self, none, val):
        self.none, self.val = none, val


class VFunc(V):
    kind = "func"

    def __init__(self, node, closure, name="<lambda>", module=None):
        self.node, self.closure, self.name, self.module = node, closure, name, module


class VPy(V):
    """A concrete Python object taken from the real module (constants, modules, dicts of constants)."""

    kind = "py"

    def __init__(self, obj, name=""):
        self.obj, self.name = obj, name

    def __repr__(self):
        return f"VPy({self.name or self.obj!r})"


class VObj(V):
    """An opaque object with named symbolic attributes (self of Multidecoder, regex match, urlsplit result...)."""

    kind = "obj"

    def __init__(self, cls, attrs=None):
        self.cls, self.attrs = cls, dict(attrs or {})

    def __repr__(self):
        return f"VObj<{self.cls}>"


class VJson(V):
    """A JSON object of the shape node_to_dict produces, as an immutable record: an identifier whose fields are uninterpreted functions of it
    (J_type, J_value, J_obfuscation : str; J_start, J_end : int; J_children : array of identifiers with its length)."""

    kind = "json"

    def __init__(self, z):
        self.z = z

    def __repr__(self):
        return f"VJson({self.z})"


JSON_FIELDS = {"type": "str", "value": "str", "obfuscation": "str", "start": "int", "end": "int", "children": "list"}


class VObjRef(V):
    """An opaque library object (a pkgutil module info, an imported module, a function object): an identifier; its attributes are
    uninterpreted functions of it (see builtins_tbl.OBJ_ATTRS)."""

    kind = "objref"

    def __init__(self, cls, z):
        self.cls, self.z = cls, z

    def __repr__(self):
        return f"VObjRef<{self.cls}>({self.z})"


def elem_val(ek, z):
    if isinstance(ek, str) and ek.startswith("obj:"):
        if ek == "obj:member":
            # an entry of inspect.getmembers(): the pair (name, object)
            return VTuple([VStr(z3.Function("MEMBER_NAME", I, S)(z)), VObjRef("function", z3.Function("MEMBER_OBJECT", I, I)(z))])
        return VObjRef(ek[4:], z)
    return {"int": VInt, "ref": VRef, "bytes": VBytes, "str": VStr, "bool": VBool, "json": VJson}[ek](z)


def sort_of_kind(k):
    return {"int": I, "ref": I, "bytes": S, "str": S, "bool": B, "json": I}[k]


def zmin(a, b):
    return z3.If(a <= b, a, b)


def zmax(a, b):
    return z3.If(a >= b, a, b)


def is_int_const(z):
    z = z3.simplify(z)
    return z3.is_int_value(z)


def int_const(z):
    return z3.simplify(z).as_long()


def clamp_index(i, n):
    """Python slice-bound normalisation of i for a sequence of length n (step > 0)."""
    si = z3.simplify(i)
    if z3.is_int_value(si):
        c = si.as_long()
        if c == 0:
            return z3.IntVal(0)
        if c > 0:
            return zmin(si, n)
        return zmax(n + c, z3.IntVal(0))
    return z3.If(i < 0, zmax(i + n, z3.IntVal(0)), zmin(i, n))


def str_slice(s, lo, hi):
    """s[lo:hi] with Python semantics; lo/hi are z3 ints or None."""
    n = z3.Length(s)
    a = z3.IntVal(0) if lo is None else clamp_index(lo, n)
    b = n if hi is None else clamp_index(hi, n)
    return z3.SubString(s, a, zmax(b - a, z3.IntVal(0)))
