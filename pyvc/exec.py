"""Symbolic executor / verification-condition generator.

One `FunctionVC` per function under contract.  `run()` executes the function's real AST forward, splitting
paths at branches, cutting loops by their invariants and calls by the callee's contract, and returns the list
of obligations (name, hypotheses, goal).
"""
from __future__ import annotations

import ast
import copy
from dataclasses import dataclass, field

import z3

from . import builtins_tbl as BT
from .contract import CONTRACTS, SPECS, Contract, Loop
from .values import *  # noqa: F403

HEAP_FIELDS = {
    "type": (S, "str"),
    "value": (S, "bytes"),
    "obfuscation": (S, "str"),
    "start": (I, "int"),
    "end": (I, "int"),
    "parent": (I, "ref"),
    "own": (I, "ref"),  # GHOST: the top-level node of the pre-assembled structure a node was allocated in (never written by code)
}


@dataclass
class Obligation:
    name: str
    hyps: list
    goal: object
    func: str = ""
    kind: str = ""
    line: int = 0
    expect: str = "unsat"  # "unsat": hyps => goal must be valid; "sat": hyps must be satisfiable (vacuity)
    note: str = ""
    model_vars: dict = field(default_factory=dict)  # name -> z3 term, evaluated in a counter-model for replay
    group: str = ""  # alternative proofs of ONE clause: the clause is discharged when its `whole` is, or when all its `part`s are
    role: str = ""
    prefer: str = ""  # the portfolio entry that discharged this obligation (slowly) on the unchanged tree: tried first (baseline/<id>.prefer)


class Flow:
    NEXT, BREAK, CONTINUE, RETURN, RAISE = "next", "break", "continue", "return", "raise"


class State:
    def __init__(self):
        self.store: dict[str, V] = {}
        self.heap: dict[str, object] = {}
        self.alloc = None
        self.path: list = []
        self.guards: list = []
        self.pending: list = []  # (cond, exc, desc, line)
        self.old: State | None = None
        self.labels: dict[str, State] = {}
        self.facts_seen: set = set()
        self.ghost_names: set = set()
        self.in_binder = 0
        self.bound: dict = {}
        self.calllog: list = []  # ghost: calls made through contracts on this path: (short name, [argument values])
        self.matchiters: list = []  # ghost: the finditer iterators made on this path: (pattern constant, text term, iterator)
        self.objattrs: dict = {}  # per-path attribute stores of opaque objects: id(VObj) -> {attr: value}

    def clone(self) -> "State":
        s = State()
        s.store = dict(self.store)
        s.heap = dict(self.heap)
        s.alloc = self.alloc
        s.path = list(self.path)
        s.guards = list(self.guards)
        s.pending = list(self.pending)
        s.old = self.old
        s.labels = dict(self.labels)
        s.facts_seen = set(self.facts_seen)
        s.ghost_names = set(self.ghost_names)
        s.in_binder = self.in_binder
        s.bound = dict(self.bound)
        s.objattrs = {k: dict(v) for k, v in self.objattrs.items()}
        s.calllog = list(self.calllog)
        s.matchiters = list(self.matchiters)
        return s

    def assume(self, *conds):
        for c in conds:
            if z3.is_true(c):
                continue
            self.path.append(c)

    def fact(self, c):
        """A ground fact of the encoding (type invariant / builtin contract instance); deduplicated."""
        k = c.get_id()
        if k not in self.facts_seen:
            self.facts_seen.add(k)
            self.path.append(c)

    def hyps(self):
        return list(self.path) + list(self.guards)


def new_heap(tag: str):
    h = {f: z3.Const(f"H{tag}_{f}", z3.ArraySort(I, srt)) for f, (srt, _) in HEAP_FIELDS.items()}
    h["children"] = z3.Const(f"H{tag}_children", z3.ArraySort(I, ArrII))
    h["nchildren"] = z3.Const(f"H{tag}_nchildren", ArrII)
    return h


class ModuleInfo:
    """Real source of one repo module: AST (from the file CPython imports) + the live module for constants."""

    def __init__(self, modname: str):
        import importlib

        self.name = modname
        self.mod = importlib.import_module(modname)
        self.path = self.mod.__file__
        with open(self.path, "rb") as f:
            self.src = f.read().decode()
        self.tree = ast.parse(self.src)
        self.funcs: dict[str, ast.FunctionDef] = {}
        self._index(self.tree.body, "")

    def _index(self, body, prefix):
        for n in body:
            if isinstance(n, (ast.FunctionDef,)):
                self.funcs[prefix + n.name] = n
                self._index(n.body, prefix + n.name + ".")
            elif isinstance(n, ast.ClassDef):
                self._index(n.body, prefix + n.name + ".")
            elif isinstance(n, (ast.If, ast.For, ast.While, ast.With, ast.Try)):
                for fld in ("body", "orelse", "finalbody"):
                    self._index(getattr(n, fld, []) or [], prefix)


_MODULES: dict[str, ModuleInfo] = {}


def module_info(modname: str) -> ModuleInfo:
    if modname not in _MODULES:
        _MODULES[modname] = ModuleInfo(modname)
    return _MODULES[modname]


def split_qualname(q: str):
    """multidecoder.node.Node.flatten -> (multidecoder.node, Node.flatten)"""
    import importlib

    parts = q.split(".")
    for k in range(len(parts) - 1, 0, -1):
        mn = ".".join(parts[:k])
        try:
            importlib.import_module(mn)
            return mn, ".".join(parts[k:])
        except ImportError:
            continue
    raise AnchorMismatch(f"no module for {q}")


def loops_in_order(fn: ast.FunctionDef):
    """Loops of a function in source order (nested function bodies excluded)."""
    out = []

    def walk(stmts):
        for s in stmts:
            if isinstance(s, (ast.While, ast.For)):
                out.append(s)
                walk(s.body)
                walk(s.orelse)
            elif isinstance(s, ast.If):
                walk(s.body)
                walk(s.orelse)
            elif isinstance(s, ast.Try):
                walk(s.body)
                for h in s.handlers:
                    walk(h.body)
                walk(s.orelse)
                walk(s.finalbody)
            elif isinstance(s, ast.With):
                walk(s.body)

    walk(fn.body)
    return out


def assigned_names(stmts) -> set[str]:
    out = set()

    class Vis(ast.NodeVisitor):
        def visit_Name(self, n):
            if isinstance(n.ctx, (ast.Store, ast.Del)):
                out.add(n.id)

        def visit_FunctionDef(self, n):
            out.add(n.name)

        def visit_Lambda(self, n):
            pass

        def visit_Call(self, n):
            # mutation through a method of a local list: x.append(...), x.pop(), x.extend(...)
            if isinstance(n.func, ast.Attribute) and isinstance(n.func.value, ast.Name):
                if n.func.attr in ("append", "pop", "extend", "insert", "clear", "sort", "reverse", "discard", "add"):
                    out.add(n.func.value.id)
            self.generic_visit(n)

        def visit_Subscript(self, n):
            if isinstance(n.ctx, ast.Store) and isinstance(n.value, ast.Name):
                out.add(n.value.id)
            self.generic_visit(n)

    for s in stmts:
        Vis().visit(s)
    return out


class Exec:
    """Symbolic execution of one function body under one contract."""

    def __init__(self, qualname: str, contract: Contract, tier="quick"):
        self.qualname = qualname
        self.c = contract
        modname, fname = split_qualname(qualname)
        self.mi = module_info(modname)
        if fname not in self.mi.funcs:
            raise AnchorMismatch(f"function {qualname} not found in {self.mi.path}")
        self.fn = self.mi.funcs[fname]
        self.fname = fname
        for d in self.fn.decorator_list:
            dn = ast.unparse(d)
            if dn not in ("decoder", "registry.decoder", "property", "staticmethod"):
                # a decorator changes what a call of the function does (caching, wrapping): outside the verified subset
                raise Unsupported(f"decorator @{dn} on a function under contract")
        self.obligations: list[Obligation] = []
        self.loops = loops_in_order(self.fn)
        self.notes: list[str] = []
        self.rec_specs: dict[str, object] = {}
        self.entry: State | None = None
        self.uf: dict[str, object] = {}
        self.tier = tier
        self.call_depth = 0
        self.assumed: set[str] = set()  # trusted contracts / builtin facts actually used
        self.carves: list = []  # (regex over obligation names, python expression over the locals at the obligation) from KNOWN_FINDINGS.txt
        if contract.loops and max(contract.loops) > len(self.loops):
            raise AnchorMismatch(
                f"{qualname}: contract has an invariant for loop {max(contract.loops)} but the function has {len(self.loops)} loops"
            )

    # ------------------------------------------------------------------ obligations
    def oblige(self, st: State, kind: str, anchor: str, goal, line=0, extra_hyps=(), note="", model_vars=None, _nopeel=False):
        if not _nopeel and z3.is_quantifier(goal) and goal.is_forall() and goal.num_vars() == 1:
            peeled = _peel_last(goal)
            if peeled is not None:
                # two ways to prove one clause: as a whole (cheap when the last element is unchanged) or peeled into
                # "all but the last" + "the last element" (cheap when a new last element was just added)
                before = len(self.obligations)
                self.oblige(st, kind, anchor, goal, line, extra_hyps, note, model_vars, _nopeel=True)
                whole = self.obligations[before:]
                if len(whole) == 1:
                    gname = whole[0].name
                    whole[0].group, whole[0].role = gname, "whole"
                    b2 = len(self.obligations)
                    for kk, pg in enumerate(peeled):
                        self.oblige(st, kind, f"{anchor}~peel{kk}", pg, line, extra_hyps, note, model_vars, _nopeel=True)
                    for o_ in self.obligations[b2:]:
                        o_.group, o_.role = gname, "part"
                return
        parts = split_goal(goal)
        if len(parts) > 1:
            for k, p in enumerate(parts):
                self.oblige(st, kind, f"{anchor}.{k}", p, line, extra_hyps, note, model_vars)
            return
        name = f"{self.qualname}/{kind}/{anchor}"
        # several paths may reach the same anchor: number them
        n = sum(1 for o in self.obligations if o.name == name or o.name.startswith(name + "#"))
        if n:
            name = f"{name}#{n}"
        mv = dict(model_vars or {})
        if self.entry is not None:
            for k, v in self.entry.store.items():
                mv.setdefault(k, v)
        extra_hyps = list(extra_hyps) + ground_links(goal, "SLICE" in self.c.opaque or "slice" in self.c.opaque)
        self.obligations.append(
            Obligation(name, st.hyps() + list(extra_hyps), goal, self.qualname, kind, line, "unsat", note, mv)
        )
        # recorded findings with a carve-out: the RESIDUAL obligation (same goal, outside the carve-out) must still be discharged,
        # so that a different violation of the same clause is still reported
        import re as _re

        for rx, cexpr in self.carves:
            if _re.search(rx, name):
                try:
                    cz = self.spec_bool(cexpr, st)
                except Unsupported:
                    cz = z3.BoolVal(False)  # the carve-out mentions locals that do not exist on this path: not carved
                self.obligations.append(Obligation(name + "~residual", st.hyps() + list(extra_hyps) + [z3.Not(cz)], goal, self.qualname, kind, line, "unsat", "residual of a recorded finding", mv, name, "residual"))
                break

    def vacuity(self, st: State, anchor: str):
        name = f"{self.qualname}/vacuity/{anchor}"
        n = sum(1 for o in self.obligations if o.name == name or o.name.startswith(name + "#"))
        if n:
            name = f"{name}#{n}"
        self.obligations.append(Obligation(name, st.hyps(), z3.BoolVal(True), self.qualname, "vacuity", 0, "sat"))

    # ------------------------------------------------------------------ types / symbols
    def sym_of_type(self, t: str, name: str, st: State) -> V:
        t = t.strip().replace(" ", "")
        if t.startswith(("'", '"')):
            t = t[1:-1]
        if t in ("int",):
            return VInt(z3.Int(name))
        if t == "bool":
            return VBool(z3.Bool(name))
        if t == "bytes":
            return VBytes(z3.String(name))
        if t == "str":
            return VStr(z3.String(name))
        if t in ("Node", "Self"):
            r = z3.Int(name)
            st.assume(r >= 0, r < st.alloc)
            return VRef(r)
        if t in ("Node|None", "None|Node", "Optional[Node]"):
            r = z3.Int(name)
            st.assume(r >= -1, r < st.alloc)
            return VRef(r)
        if t.startswith("list[") or t.startswith("List["):
            ek = {"int": "int", "bytes": "bytes", "Node": "ref", "str": "str"}.get(t[5:-1])
            if ek is None:
                raise Unsupported(f"list element type {t}")
            n = z3.Int(name + "_len")
            st.assume(n >= 0)
            arr = z3.Const(name + "_arr", z3.ArraySort(I, ELEM_SORT[ek]))
            if ek == "ref":
                k = fresh("k", I)
                st.assume(z3.ForAll([k], z3.Implies(z3.And(0 <= k, k < n), z3.And(arr[k] >= 0, arr[k] < st.alloc))))
            return VList(arr, n, ek)
        if t.startswith("match:"):
            # a match object of the given pattern in some text (the parameter of a re.sub callback)
            from . import regexlib as _RL

            pat_ = ast.literal_eval("b" + repr(t[6:])) if not t[6:].startswith(("b'", 'b"', "rb")) else ast.literal_eval(t[6:])
            text_ = VBytes(z3.String(name + "_text"))
            m_ = _RL.single_match(self, pat_, text_, st, "search")
            st.assume(m_.attrs["_truthy"])
            return m_
        if t == "json":
            j = z3.Int(name)
            return VJson(j)
        if t in ("strs?", "strs"):
            # an iterable of strings or None: truthiness (neither None nor empty) and membership are uninterpreted
            return VObj("strs", {"_truthy": z3.Bool(name + "_truthy"), "_id": z3.Int(name + "_id")})
        if t.startswith("list[obj:"):
            n = z3.Int(name + "_len")
            st.assume(n >= 0)
            return VList(z3.Const(name + "_arr", ArrII), n, t[5:-1])
        if t == "obj:registry?":
            tr, isn = z3.Bool(name + "_truthy"), z3.Bool(name + "_isnone")
            st.assume(z3.Implies(isn, z3.Not(tr)))
            return VObj("registry", {"_truthy": tr, "_isnone": isn})
        if t.startswith("obj:"):
            return VObj(t[4:], {})
        raise Unsupported(f"parameter type {t!r}")

    def ann_to_type(self, ann) -> str | None:
        if ann is None:
            return None
        return ast.unparse(ann)

    # ------------------------------------------------------------------ driver
    def run(self) -> list[Obligation]:
        st = State()
        st.heap = new_heap("0")
        st.alloc = z3.Int("alloc0")
        st.assume(st.alloc >= 0)
        fn = self.fn
        args = fn.args
        params = [a for a in args.posonlyargs + args.args + args.kwonlyargs]
        defaults = dict(zip([a.arg for a in args.args][len(args.args) - len(args.defaults) :], args.defaults))
        for a in params:
            t = self.c.types.get(a.arg) or self.ann_to_type(a.annotation)
            if a.arg == "self" and t is None:
                t = self.c.types.get("self", "Node")
            if t is None:
                raise Unsupported(f"{self.qualname}: no type for parameter {a.arg}")
            st.store[a.arg] = self.sym_of_type(t, a.arg, st)
        for g, t in self.c.ghost_params.items():
            st.store[g] = self.sym_of_type(t, g, st)
            st.ghost_names.add(g)
        self.uses_heap = self.c.fresh_nodes or self.c.modifies is not None or any(isinstance(v, VRef) or (isinstance(v, VList) and v.ek == "ref") for v in st.store.values()) or "Node" in ast.unparse(self.fn)
        if self.uses_heap:
            self.heap_wf_assumptions(st)
        for nm, src in self.c.defs.items():
            st.store[nm] = VFunc(ast.parse(src.strip(), mode="eval").body, {}, nm)
        entry = st.clone()
        st.old = entry
        self.entry = entry
        entry.old = entry
        for nm, e in self.c.requires.items():
            st.assume(self.spec_bool(e, st))
        self.vacuity(st, "requires")
        for cname, pinned in self.c.pins.items():
            # the language of a pattern constant is pinned by the contract: every text is in both languages or in neither (look-arounds / anchors
            # erased on both sides).  A refutation carries a witness text, replayed with the real regex module on both patterns
            from . import regex2smt as _R2

            code_pat = getattr(self.mi.mod, cname, None)
            if not isinstance(code_pat, bytes):
                raise AnchorMismatch(f"{self.qualname}: the pinned pattern constant {cname} is not a bytes constant of {self.mi.name}")
            la, _ = _R2.to_re(code_pat)
            lb, _ = _R2.to_re(pinned)
            self.assumed.add("language pins compare L(P°): look-arounds / anchors are erased on both sides, and both patterns go through the same regex-to-RegLan "
                             "translation (trusted; a refutation's witness is confirmed with the real regex module before it is reported as a failing text)")
            w = z3.String(f"pin_text__{cname}")
            self.obligations.append(Obligation(f"{self.qualname}/pin/{cname}", [], z3.InRe(w, la) == z3.InRe(w, lb), self.qualname, "pin", fn.lineno, "unsat",
                                               "language of the pattern constant == language pinned in the contract", {f"pin_text__{cname}": VBytes(w)}))
        self.cut_base = st.clone()
        results = self.exec_block(fn.body, st)
        # A cut point / assertion / statement-anchored hint whose statement is no longer in the source: the contract does not line up with the code any
        # more.  That is reported as such (the check exits 3 unless a stand-in finds a concrete failing input) - running on without the proof aid would
        # turn a harmless rewrite of the anchored statement into obligations that time out, i.e. into a false alarm.
        missing = sorted(set(self.c.asserts) - getattr(self, "asserts_seen", set())) + sorted(set(self.c.cuts) - getattr(self, "cut_seen", set()))
        missing += sorted(a_ for a_ in self.c.hints if a_ != "return" and a_ not in self.c.cuts and a_ not in getattr(self, "hints_seen", set()))
        if missing:
            raise AnchorMismatch(f"{self.qualname}: statements the contract is anchored at are not in the current source: {missing}")
        for s, flow, val in results:
            if flow == Flow.NEXT:
                flow, val = Flow.RETURN, VNone()
            if flow == Flow.RETURN:
                self.check_post(s, val)
            elif flow == Flow.RAISE:
                self.check_raise(s, val)
            else:
                raise Unsupported(f"{flow} outside loop")
        return self.obligations

    def heap_wf_assumptions(self, st: State):
        """Type invariants of the heap at entry: children counts are non-negative, refs are allocated."""
        r = fresh("r", I)
        k = fresh("k", I)
        h = st.heap
        st.assume(z3.ForAll([r], z3.Implies(z3.And(0 <= r, r < st.alloc), h["nchildren"][r] >= 0)))
        st.assume(z3.ForAll([r], z3.Implies(z3.And(0 <= r, r < st.alloc), z3.And(h["parent"][r] >= -1, h["parent"][r] < st.alloc))))
        st.assume(
            z3.ForAll(
                [r, k],
                z3.Implies(
                    z3.And(0 <= r, r < st.alloc, 0 <= k, k < h["nchildren"][r]),
                    z3.And(h["children"][r][k] >= 0, h["children"][r][k] < st.alloc),
                ),
            )
        )

    def check_post(self, st: State, val: V):
        st = st.clone()
        st.store["result"] = val
        for hnt in self.c.hints.get("return", []):
            st.assume(self.lemma_instance(hnt, st))
        for nm, e in self.c.ensures.items():
            self.oblige(st, "post", nm, self.spec_bool(e, st))
        if self.c.ensures_each:
            if not isinstance(val, VList):
                raise Unsupported("ensures_each on a non-list result")
            if val.ek is not None:
                kk = fresh("k", I)
                view = st.clone()
                view.in_binder += 1
                view.store["node"] = VRef(val.arr[kk])
                for nm, e in self.c.ensures_each.items():
                    if nm in getattr(val, "established", ()):
                        continue  # proved for the arbitrary element where the list was built (obligation each/<nm>)
                    self.oblige(st, "post-each", nm, z3.ForAll([kk], z3.Implies(z3.And(0 <= kk, kk < val.n), self.spec_bool(e, view))))
        self.check_frame(st)
        self.vacuity(st, "return")

    def check_frame(self, st: State):
        """Write frame: pre-existing nodes change only in the fields / at the references the contract names."""
        e = self.entry
        for f in list(HEAP_FIELDS) + ["children", "nchildren"]:
            if st.heap[f] is e.heap[f]:
                continue
            allowed = []
            if self.c.modifies is not None:
                key = "children" if f == "nchildren" else f
                if "*" in self.c.modifies.get(key, []):
                    continue
                for ex in self.c.modifies.get(key, []):
                    allowed.append(self.spec_val(ex, e))
            r = fresh("r", I)
            conds = [0 <= r, r < e.alloc]
            for a in allowed:
                if isinstance(a, VRef):
                    conds.append(r != a.z)
                elif isinstance(a, VList):
                    k = fresh("k", I)
                    conds.append(z3.Not(z3.Exists([k], z3.And(0 <= k, k < a.n, a.arr[k] == r))))
                elif isinstance(a, VBool):  # a predicate over `r`
                    raise Unsupported("predicate frames: use VRegion")
                else:
                    raise Unsupported(f"modifies target {a}")
            if f == "children":
                kf = fresh("k", I)
                self.oblige(st, "frame/write", f, z3.ForAll([r, kf], z3.Implies(z3.And(*conds, 0 <= kf, kf < e.heap["nchildren"][r]), st.heap[f][r][kf] == e.heap[f][r][kf])))
            else:
                self.oblige(st, "frame/write", f, z3.ForAll([r], z3.Implies(z3.And(*conds), st.heap[f][r] == e.heap[f][r])))

    def check_raise(self, st: State, exc):
        name, desc, line = exc
        allowed = None
        for cls in BT.exc_supers(name):
            if cls in self.c.raises:
                allowed = self.c.raises[cls]
                break
            if cls in self.c.raises_iff:
                allowed = self.c.raises_iff[cls]
                break
        if allowed is None:
            # must be unreachable
            self.oblige(st, "safe", f"{name}@L{line - self.fn.lineno}:{desc}", z3.BoolVal(False), line)
        else:
            ev = self.entry_view(st)
            n0 = len(ev.path)
            cond = self.spec_bool(allowed, ev)
            for c_ in ev.path[n0:]:
                if c_.get_id() in ev.facts_seen:
                    st.fact(c_)  # ground facts of the encoding met while reading the raise condition (e.g. the language of canon_quad)
            self.oblige(st, "raises", f"{name}@L{line - self.fn.lineno}:{desc}", cond, line)
            self.check_frame(st)

    def entry_view(self, st: State) -> State:
        v = self.entry.clone()
        v.path = list(st.path)
        v.guards = []
        return v

    # ------------------------------------------------------------------ blocks & statements
    def exec_block(self, stmts, st: State):
        """Returns [(state, flow, value)]."""
        states = [(st, Flow.NEXT, None)]
        top = self.call_depth == 0 and stmts is self.fn.body and bool(self.c.cuts)
        if top:
            self.cut_seen = set()
        for stmt in stmts:
            if top:
                states = self.maybe_cut(stmt, states)
            nxt = []
            for s, flow, val in states:
                if flow != Flow.NEXT:
                    nxt.append((s, flow, val))
                    continue
                nxt.extend(self.exec_stmt(stmt, s))
            states = nxt
            if len(states) > 4000:
                raise Unsupported("path explosion (>4000 paths)")
        return states

    def maybe_cut(self, stmt, states):
        """Straight-line cut point: the clauses are proved on every path reaching the statement, then ONE state continues that knows only the
        clauses (plus the definitional facts of the encoding): locals and heap fields on which the incoming paths differ are havocked."""
        src = ast.unparse(stmt)
        anchor = next((a for a in self.c.cuts if src.startswith(a)), None)
        if anchor is None:
            return states
        if anchor in self.cut_seen:
            raise Unsupported(f"cut anchor {anchor!r} matches more than one top-level statement")
        self.cut_seen.add(anchor)
        clauses = dict(self.c.cuts[anchor])
        if self.c.collector:
            clauses.update(self.collector_loop().inv)
        inc = [s for s, f, _ in states if f == Flow.NEXT]
        rest = [(s, f, v) for s, f, v in states if f != Flow.NEXT]
        if not inc:
            return states
        tag = "cut:" + anchor
        for s in inc:
            for hnt in self.c.hints.get(anchor, []):
                s.assume(self.lemma_instance(hnt, s))
            for nm, e in clauses.items():
                self.oblige(s, f"cut/{anchor}", nm, self.spec_bool(e, s), stmt.lineno)
        m = inc[0].clone()
        m.pending, m.guards = [], []
        base = self.cut_base
        seen = {c.get_id() for c in base.path}
        m.path = list(base.path)
        same = lambda a, b: a is b or (hasattr(a, "z") and hasattr(b, "z") and type(a) is type(b) and a.z.eq(b.z))  # noqa: E731
        for nm in list(m.store):
            vs = [s.store.get(nm) for s in inc]
            if any(v is None for v in vs):
                del m.store[nm]
            elif not all(same(vs[0], v) for v in vs[1:]):
                m.store[nm] = self.fresh_like(vs[0], f"{nm}@{tag}", m)
        hw = [f for f in m.heap if not all(s.heap[f].eq(inc[0].heap[f]) for s in inc[1:])]
        if not all(s.alloc.eq(inc[0].alloc) for s in inc[1:]):
            hw.append("@alloc")
            m.alloc = self.entry.alloc
        self.havoc(m, [], hw, tag)
        n0 = min(len(s.calllog) for s in inc)
        m.calllog = [e for i, e in enumerate(inc[0].calllog[:n0]) if all(s.calllog[i] is e for s in inc)]
        # definitional facts (fact()) survive the cut when they speak only about symbols that are still alive (entry symbols, the merged
        # locals and heap); path conditions, and facts about the dead temporaries of the merged paths, do not
        from .solve import _consts
        from .values import V as _V

        memo = {}
        alive = set()
        for c in base.path:
            alive |= _consts(c, memo)

        def terms_of(v):
            if isinstance(v, _V):
                for a in vars(v).values():
                    if isinstance(a, z3.ExprRef):
                        yield a
                    elif isinstance(a, (list, tuple)):
                        for x in a:
                            yield from terms_of(x)
                    elif isinstance(a, _V):
                        yield from terms_of(a)

        for v in list(m.store.values()) + list(self.entry.store.values()):
            for t_ in terms_of(v):
                alive |= _consts(t_, memo)
        for h_ in list(m.heap.values()) + [m.alloc]:
            alive |= _consts(h_, memo)
        for s in inc:
            for c in s.path:
                if c.get_id() in s.facts_seen and c.get_id() not in seen and _consts(c, memo) <= alive:
                    seen.add(c.get_id())
                    m.path.append(c)
                    m.facts_seen.add(c.get_id())
        for nm, e in clauses.items():
            m.assume(self.spec_bool(e, m))
        self.cut_base = m.clone()
        self.vacuity(m, f"cut/{anchor}")
        return rest + [(m, Flow.NEXT, None)]

    def flush(self, st: State, results=None):
        """Turn pending potential raises of the just-evaluated statement into raising paths."""
        out = []
        neg = set()
        for cond, exc, desc, line, snap in st.pending:
            rs = st.clone()
            rs.pending = []
            rs.guards = []
            rs.store, rs.heap, rs.alloc, rs.objattrs, rs.calllog = dict(snap[0]), dict(snap[1]), snap[2], {k: dict(v) for k, v in snap[3].items()}, list(snap[4])
            rs.path = [c for i, c in enumerate(st.path) if i < snap[5] or c.get_id() in st.facts_seen or id(c) in neg]
            rs.assume(cond)
            out.append((rs, Flow.RAISE, (exc, desc, line)))
            nc = z3.Not(cond)
            neg.add(id(nc))
            st.path.append(nc)
        st.pending = []
        return out

    def exec_stmt(self, stmt, st: State):
        m = getattr(self, "stmt_" + type(stmt).__name__, None)
        if m is None:
            raise Unsupported(f"statement {type(stmt).__name__} at line {stmt.lineno}")
        self.cur_line = stmt.lineno
        if self.c.labels and self.call_depth == 0:
            src_l = ast.unparse(stmt)
            for lab, anchor in self.c.labels.items():
                if src_l.startswith(anchor):
                    st.labels = dict(st.labels)
                    st.labels[lab] = st.clone()
        if self.c.hints and self.call_depth == 0:
            src = None
            for anchor, hs in self.c.hints.items():
                if anchor == "return" or anchor in self.c.cuts:
                    continue
                src = src if src is not None else ast.unparse(stmt)
                if src.startswith(anchor):
                    self.hints_seen = getattr(self, "hints_seen", set()) | {anchor}
                    for hnt in hs:
                        try:
                            st.assume(self.lemma_instance(hnt, st))
                        except UndefinedName as e_:
                            # the hint mentions a local that does not exist on this path: no instance (fewer assumptions).  A name the function
                            # never binds at all means the contract no longer lines up with the code: that is a checker error, not a proof failure
                            nm_ = str(e_).replace("name ", "").strip()
                            known_ = assigned_names(self.fn.body) | {a.arg for a in self.fn.args.args + self.fn.args.kwonlyargs + self.fn.args.posonlyargs}
                            for sub_ in ast.walk(self.fn):
                                if isinstance(sub_, (ast.For, ast.comprehension)):
                                    known_ |= {n_.id for n_ in ast.walk(sub_.target) if isinstance(n_, ast.Name)}
                                if isinstance(sub_, ast.NamedExpr):
                                    known_.add(sub_.target.id)
                            if nm_ not in known_:
                                raise AnchorMismatch(f"{self.qualname}: hint `{hnt}` mentions `{nm_}`, which the function no longer binds")
        if self.c.asserts and self.call_depth == 0:
            src_ = ast.unparse(stmt)
            for anchor, cl in self.c.asserts.items():
                if src_.startswith(anchor):
                    self.asserts_seen = getattr(self, "asserts_seen", set()) | {anchor}
                    for nm, e in cl.items():
                        z = self.spec_bool(e, st)
                        self.oblige(st, f"assert/{anchor}", nm, z, stmt.lineno)
                        st.assume(z)
        return m(stmt, st)

    def stmt_Global(self, stmt, st):
        # `global x` exists to WRITE module state: a violation of the write frame (C09: results must not depend on history / threads)
        self.oblige(st, "frame/write", f"module-state({', '.join(stmt.names)})@L{stmt.lineno - self.fn.lineno}", z3.BoolVal(False), stmt.lineno, note="write to module-level state")
        for nm in stmt.names:
            mod = getattr(self, "cur_module", None) or self.mi.mod
            if hasattr(mod, nm) and nm not in st.store:
                st.store[nm] = self.from_py(getattr(mod, nm), nm)
        return [(st, Flow.NEXT, None)]

    def stmt_Nonlocal(self, stmt, st):
        raise Unsupported("nonlocal")

    def stmt_Pass(self, stmt, st):
        return [(st, Flow.NEXT, None)]

    def stmt_Expr(self, stmt, st):
        if isinstance(stmt.value, ast.Constant):
            return [(st, Flow.NEXT, None)]  # docstring
        forks = self.try_statement_call(stmt.value, st)
        if forks is not None:
            return [(s, Flow.NEXT, None) if f == Flow.RETURN else (s, f, v) for s, f, v in forks]
        self.eval(stmt.value, st)
        r = self.flush(st)
        return r + [(st, Flow.NEXT, None)]

    def stmt_Assign(self, stmt, st):
        if isinstance(stmt.value, ast.IfExp) and self.c.types.get("@fork_ifexp"):
            v = stmt.value
            a1 = ast.Assign(targets=stmt.targets, value=v.body, lineno=stmt.lineno)
            a2 = ast.Assign(targets=stmt.targets, value=v.orelse, lineno=stmt.lineno)
            node = ast.If(test=v.test, body=[a1], orelse=[a2], lineno=stmt.lineno)
            return self.stmt_If(node, st)
        forks = self.try_statement_call(stmt.value, st)
        if forks is not None:
            out = []
            for s, f, v in forks:
                if f == Flow.RETURN:
                    for t in stmt.targets:
                        self.assign(t, v, s)
                    out.extend(self.flush(s))
                    out.append((s, Flow.NEXT, None))
                else:
                    out.append((s, f, v))
            return out
        v = self.eval(stmt.value, st)
        if self.c.labels and self.call_depth == 0:
            src_l = ast.unparse(stmt)
            for lab, anchor in self.c.labels.items():
                if anchor.startswith("=") and src_l.startswith(anchor[1:]):
                    # `=<prefix>`: the state after the right-hand side of this assignment has been evaluated, before the store
                    st.labels = dict(st.labels)
                    st.labels[lab] = st.clone()
        for t in stmt.targets:
            self.assign(t, v, st)
        r = self.flush(st)
        return r + [(st, Flow.NEXT, None)]

    def stmt_AnnAssign(self, stmt, st):
        if stmt.value is None:
            return [(st, Flow.NEXT, None)]
        v = self.eval(stmt.value, st)
        if isinstance(v, VList) and v.ek is None:
            t = ast.unparse(stmt.annotation).replace(" ", "")
            ek = {"list[Node]": "ref", "list[int]": "int", "list[bytes]": "bytes", "Registry": "ref"}.get(t)
            hint = (self.c.types.get(stmt.target.id, "") if isinstance(stmt.target, ast.Name) else "").replace(" ", "")
            if hint.startswith("list[obj:"):
                ek = hint[5:-1]  # the contract says what the list holds (opaque library objects)
            if ek:
                v = VList(self.typed_empty(ek).arr, v.n, ek)
        self.assign(stmt.target, v, st)
        r = self.flush(st)
        return r + [(st, Flow.NEXT, None)]

    def stmt_AugAssign(self, stmt, st):
        cur = self.eval(self.as_load(stmt.target), st)
        rhs = self.eval(stmt.value, st)
        v = self.binop(stmt.op, cur, rhs, st)
        self.assign(stmt.target, v, st)
        r = self.flush(st)
        return r + [(st, Flow.NEXT, None)]

    def as_load(self, t):
        t2 = copy.copy(t)
        t2.ctx = ast.Load()
        return t2

    def stmt_Return(self, stmt, st):
        if stmt.value is None:
            return [(st, Flow.RETURN, VNone())]
        forks = self.try_statement_call(stmt.value, st)
        if forks is not None:
            return forks
        v = self.eval(stmt.value, st)
        r = self.flush(st)
        return r + [(st, Flow.RETURN, v)]

    def stmt_Continue(self, stmt, st):
        return [(st, Flow.CONTINUE, None)]

    def stmt_Break(self, stmt, st):
        return [(st, Flow.BREAK, None)]

    def stmt_FunctionDef(self, stmt, st):
        st.store[stmt.name] = VFunc(stmt, st.store, stmt.name)
        return [(st, Flow.NEXT, None)]

    def stmt_Assert(self, stmt, st):
        c = self.truthy(self.eval(stmt.test, st), st)
        self.raise_if(st, z3.Not(c), "AssertionError", "assert")
        r = self.flush(st)
        return r + [(st, Flow.NEXT, None)]

    def stmt_Raise(self, stmt, st):
        name = "Exception"
        if stmt.exc is not None:
            e = stmt.exc
            if isinstance(e, ast.Call):
                e = e.func
            name = ast.unparse(e).split(".")[-1]
        return [(st, Flow.RAISE, (name, "raise", stmt.lineno))]

    def stmt_If(self, stmt, st):
        c = self.truthy(self.eval(stmt.test, st), st)
        out = self.flush(st)
        c = z3.simplify(c)
        if not z3.is_false(c):
            s1 = st.clone()
            s1.assume(c)
            out.extend(self.exec_block(stmt.body, s1))
        if not z3.is_true(c):
            s2 = st.clone() if not z3.is_false(c) else st
            s2.assume(z3.Not(c))
            out.extend(self.exec_block(stmt.orelse, s2))
        return out

    def stmt_Try(self, stmt, st):
        if stmt.finalbody:
            raise Unsupported("try/finally")
        # exceptions raised by the element expression of a comprehension inside the body are caught here as well
        saved_h = getattr(self, "comp_handlers", [])
        self.comp_handlers = saved_h + [n for h in stmt.handlers for n in self.handler_names(h)]
        try:
            res = self.exec_block(stmt.body, st)
        finally:
            self.comp_handlers = saved_h
        out = []
        for s, f, v in res:
            if f == Flow.RAISE:
                handled = False
                for h in stmt.handlers:
                    names = self.handler_names(h)
                    if any(n in BT.exc_supers(v[0]) for n in names):
                        if h.name:
                            s.store[h.name] = VObj("exception", {})
                        out.extend(self.exec_block(h.body, s))
                        handled = True
                        break
                if not handled:
                    out.append((s, f, v))
            elif f == Flow.NEXT and stmt.orelse:
                out.extend(self.exec_block(stmt.orelse, s))
            else:
                out.append((s, f, v))
        return out

    def handler_names(self, h):
        if h.type is None:
            return ["BaseException"]
        ts = h.type.elts if isinstance(h.type, ast.Tuple) else [h.type]
        out = []
        for t in ts:
            nm = ast.unparse(t).split(".")[-1]
            nm = {"binascii_error": "binascii.Error", "Error": "binascii.Error"}.get(nm, nm)
            out.append(nm)
        return out

    def stmt_With(self, stmt, st):
        # only `with contextlib.suppress(E...)`
        if len(stmt.items) == 1 and isinstance(stmt.items[0].context_expr, ast.Call):
            ce = stmt.items[0].context_expr
            if ast.unparse(ce.func) in ("contextlib.suppress", "suppress"):
                names = [ast.unparse(a).split(".")[-1] for a in ce.args]
                res = self.exec_block(stmt.body, st)
                out = []
                for s, f, v in res:
                    if f == Flow.RAISE and any(n in BT.exc_supers(v[0]) for n in names):
                        out.append((s, Flow.NEXT, None))
                    else:
                        out.append((s, f, v))
                return out
        raise Unsupported("with statement other than contextlib.suppress")

    # ------------------------------------------------------------------ loops
    def loop_spec(self, node) -> tuple[int, Loop]:
        k = self.loops.index(node) + 1
        if k not in self.c.loops and self.c.collector and self.call_depth == 0 and self.is_outermost(node):
            return k, self.collector_loop()
        return k, self.c.loops.get(k, Loop())

    def is_outermost(self, node):
        for other in self.loops:
            if other is not node and any(n is node for n in ast.walk(other)):
                return False
        return True

    def collector_loop(self) -> Loop:
        """Standard invariant of a loop that appends freshly built nodes to the result list."""
        out = self.c.collector
        inv = {}
        for nm, e in self.c.ensures_each.items():
            inv[f"each-{nm}"] = f"forall(range(len({out})), lambda k_: (lambda node: {e})({out}[k_]))"
        inv["collected-are-allocated"] = f"forall(range(len({out})), lambda k_: old(alloc()) <= {out}[k_] and {out}[k_] < alloc())"
        inv["collected-are-distinct"] = f"forall((range(len({out})), range(len({out}))), lambda k1_, k2_: implies(k1_ < k2_, {out}[k1_] != {out}[k2_]))"
        inv["frame"] = ("forall(refs, lambda r: implies(r < old(alloc()), r.start == old(r.start) and r.end == old(r.end) and r.parent == old(r.parent) "
                        "and r.value == old(r.value) and r.type == old(r.type) and r.obfuscation == old(r.obfuscation) and r.own == old(r.own) and nchildren(r) == old(nchildren(r)) "
                        "and forall(range(nchildren(r)), lambda k: child_at(r, k) == old(child_at(r, k)))))")
        return Loop(inv=inv)

    def heap_written_in(self, stmts) -> set[str]:
        """Which heap arrays a block may write (syntactic over-approximation)."""
        out = set()
        for s in stmts:
            for n in ast.walk(s):
                if isinstance(n, ast.Attribute) and isinstance(n.ctx, ast.Store):
                    if n.attr in HEAP_FIELDS:
                        out.add(n.attr)
                    elif n.attr == "children":
                        out.update(("children", "nchildren"))
                if isinstance(n, ast.Call):
                    fnm = None
                    if isinstance(n.func, ast.Attribute):
                        if n.func.attr in ("append", "pop", "extend") and isinstance(n.func.value, ast.Attribute):
                            out.update(("children", "nchildren"))
                        fnm = n.func.attr
                    elif isinstance(n.func, ast.Name):
                        fnm = n.func.id
                    if fnm:
                        c = self.find_contract_by_short(fnm)
                        if c is not None:
                            if c.modifies:
                                for f in c.modifies:
                                    out.add(f)
                                    if f == "children":
                                        out.add("nchildren")
                            if c.fresh_nodes:
                                out.update(list(HEAP_FIELDS) + ["children", "nchildren", "@alloc"])
                        if fnm == "Node":
                            out.update(list(HEAP_FIELDS) + ["children", "nchildren", "@alloc"])
        return out

    def find_contract_by_short(self, short: str):
        for q, c in CONTRACTS.items():
            if q.split(".")[-1] == short:
                return c
        return None

    def havoc(self, st: State, names, heap_fields, tag):
        for nm in names:
            if nm not in st.store:
                continue
            v = st.store[nm]
            st.store[nm] = self.fresh_like(v, f"{nm}@{tag}", st)
        for f in heap_fields:
            if f == "@alloc":
                a = fresh(f"alloc@{tag}", I)
                st.assume(a >= st.alloc)
                st.alloc = a
            else:
                st.heap[f] = fresh(f"H_{f}@{tag}", st.heap[f].sort())
        if heap_fields:
            self.heap_type_invariants(st)

    def heap_type_invariants(self, st: State):
        """Type invariants of the encoding, re-assumed whenever heap arrays are replaced by fresh ones."""
        r = fresh("r", I)
        h = st.heap
        st.assume(z3.ForAll([r], z3.Implies(z3.And(0 <= r, r < st.alloc), z3.And(h["nchildren"][r] >= 0, h["parent"][r] >= -1, h["parent"][r] < st.alloc))))

    def fresh_like(self, v: V, name: str, st: State) -> V:
        if isinstance(v, VInt):
            return VInt(fresh(name, I))
        if isinstance(v, VBool):
            return VBool(fresh(name, B))
        if isinstance(v, VBytes):
            return VBytes(fresh(name, S))
        if isinstance(v, VStr):
            return VStr(fresh(name, S))
        if isinstance(v, VRef):
            r = fresh(name, I)
            st.assume(r >= -1)
            return VRef(r)
        if isinstance(v, VList):
            n = fresh(name + "_len", I)
            st.assume(n >= 0)
            bb = fresh(name + "_buf", S) if v.bytebuf is not None else None
            return VList(fresh(name + "_arr", v.arr.sort()), n, v.ek, None, bb)
        if isinstance(v, VTuple):
            return VTuple([self.fresh_like(x, f"{name}.{i}", st) for i, x in enumerate(v.items)])
        if isinstance(v, (VNone, VPy, VFunc)):
            return v
        if isinstance(v, VOpt):
            return VOpt(fresh(name + "_isnone", B), self.fresh_like(v.val, name, st))
        raise Unsupported(f"havoc of {v}")

    def stmt_While(self, stmt, st):
        return self.do_loop(stmt, st, None)

    def stmt_For(self, stmt, st):
        return self.do_loop(stmt, st, stmt)

    def do_loop(self, stmt, st: State, fornode):
        k, spec = self.loop_spec(stmt)
        tag = f"L{k}"
        if stmt.orelse:
            raise Unsupported("loop else")
        # ---- iteration source of a `for`
        it = None
        if fornode is not None:
            it = self.iter_source(fornode.iter, st)
            out0 = self.flush(st)
        else:
            out0 = []
        idx_name = spec.index or f"_i{k}"
        if it is not None:
            st.store[idx_name] = VInt(0)
            st.ghost_names.add(idx_name)
        # ---- ghost initialisation
        for g, gs in spec.ghosts.items():
            gv = self.spec_val(gs.init, st)
            if isinstance(gv, VList) and gv.ek is None:
                gv = self.typed_empty({"list[int]": "int", "list[bytes]": "bytes", "list[Node]": "ref"}[gs.type.replace(" ", "")])
            st.store[g] = gv
            st.ghost_names.add(g)
        pre = st.clone()
        st.labels = dict(st.labels)
        st.labels[f"pre_{tag}"] = pre
        # ---- invariant holds on entry
        for hnt in spec.hints:
            st.assume(self.lemma_instance(hnt, st))
        for nm, e in spec.inv.items():
            self.oblige(st, f"inv/{tag}/init", nm, self.spec_bool(e, st), stmt.lineno)
        # ---- arbitrary iteration
        body_names = assigned_names(stmt.body) | set(spec.ghosts)
        if fornode is not None:
            body_names |= assigned_names([ast.Expr(fornode.target)]) | {n.id for n in ast.walk(fornode.target) if isinstance(n, ast.Name)}
            body_names.add(idx_name)
        hw = self.heap_written_in(stmt.body)
        head = st.clone()
        self.havoc(head, sorted(body_names), sorted(hw), tag)
        head.labels = dict(head.labels)
        if it is not None:
            i = head.store[idx_name].z
            head.assume(0 <= i, i <= it["n"])
            if it.get("owner") is not None and ("children" in hw or "nchildren" in hw):
                # iterating over a heap list: it must be unchanged at the loop head (checked at the latch)
                kk = fresh("k", I)
                head.assume(head.heap["nchildren"][it["owner"]] == it["n"], z3.ForAll([kk], z3.Implies(z3.And(0 <= kk, kk < it["n"]), head.heap["children"][it["owner"]][kk] == it["arr"][kk])))
        for nm, e in spec.inv.items():
            head.assume(self.spec_bool(e, head))
        for hnt in spec.hints:
            head.assume(self.lemma_instance(hnt, head))
        head_snapshot = head.clone()
        head.labels[tag] = head_snapshot
        self.vacuity(head, f"{tag}/head")
        # guard
        if it is not None:
            guard = head.store[idx_name].z < it["n"]
            g_raises = []
        else:
            gv = self.eval(stmt.test, head)
            guard = self.truthy(gv, head)
            g_raises = self.flush(head)
        out = list(out0) + list(g_raises)
        # ---- body
        body_st = head.clone()
        body_st.assume(guard)
        self.vacuity(body_st, f"{tag}/body")
        if it is not None:
            self.bind_iter_target(fornode.target, it, body_st.store[idx_name].z, body_st)
        res = self.exec_block(stmt.body, body_st)
        after_states = []
        for s, f, v in res:
            if f in (Flow.NEXT, Flow.CONTINUE):
                if it is not None:
                    s.store[idx_name] = VInt(s.store[idx_name].z + 1)
                # ghost step
                newg = {}
                for g, gs in spec.ghosts.items():
                    newg[g] = self.spec_val(gs.step, s, extra={"old": head_snapshot})
                for g, val in newg.items():
                    s.store[g] = val
                for hnt in spec.hints:
                    s.assume(self.lemma_instance(hnt, s))
                for hnt in spec.latch_hints:
                    s.assume(self.lemma_instance(hnt, s, extra={"old": head_snapshot}))
                # transition clauses first: each is an obligation under the latch state and, once stated, may be used (cut rule)
                # by the preservation obligations that follow - an unproved one is reported anyway
                for nm, e in spec.transition.items():
                    tz = self.spec_bool(e, s, extra={"old": head_snapshot})
                    self.oblige(s, f"step/{tag}", nm, tz, stmt.lineno)
                    if nm in spec.cut:
                        s.assume(tz)
                for nm, e in spec.inv.items():
                    self.oblige(s, f"inv/{tag}/preserve", nm, self.spec_bool(e, s), stmt.lineno)
                if it is not None and it.get("owner") is not None and ("children" in hw or "nchildren" in hw):
                    self.oblige(
                        s,
                        f"inv/{tag}/preserve",
                        "iterated-list-unchanged",
                        z3.And(s.heap["nchildren"][it["owner"]] == it["n"], z3.ForAll([kq := fresh("k", I)], z3.Implies(z3.And(0 <= kq, kq < it["n"]), s.heap["children"][it["owner"]][kq] == it["arr"][kq]))),
                        stmt.lineno,
                    )
                if spec.variant is not None:
                    v0 = self.spec_val(spec.variant, head_snapshot).z
                    v1 = self.spec_val(spec.variant, s).z
                    self.oblige(s, f"dec/{tag}", "variant", z3.And(v0 >= 0, v1 < v0), stmt.lineno)
                elif it is None:
                    self.notes.append(f"{self.qualname}: while loop {k} has no variant (termination not proved)")
                    raise Unsupported(f"while loop {k} without a variant")
            elif f == Flow.BREAK:
                after_states.append(s)
            else:
                out.append((s, f, v))
        # ---- exit
        ex = head.clone()
        ex.assume(z3.Not(guard))
        after_states.append(ex)
        for s in after_states:
            out.append((s, Flow.NEXT, None))
        return out

    def lemma_instance(self, hint: str, st: State, extra=None):
        """`LEMMA: [forall v w: ] x=<expr>; y=<expr>` - the instance  hyps[x,y := ...] ==> goal[x,y := ...]  of a registered lemma (proved separately as
        lemma/<name>, or a listed axiom).  The formula is built from the LEMMA's statement; the hint only supplies the terms (quantified over v, w if asked)."""
        from .contract import LEMMAS

        name, _, rest = hint.partition(":")
        name, _, at_label = name.strip().partition("@")
        name, at_label = name.strip(), at_label.strip()
        if name not in LEMMAS:
            raise AnchorMismatch(f"hint refers to unknown lemma {name}")
        lm = LEMMAS[name]
        self.used_lemmas = getattr(self, "used_lemmas", set()) | {name}
        if lm.trusted:
            self.assumed.add(f"trusted lemma {name}: {' and '.join(lm.hyps) or 'True'} ==> {lm.goal}  [{lm.notes}]")
        rest = rest.strip()
        bound = []
        if rest.startswith("forall "):
            names_, _, rest = rest[7:].partition(":")
            bound = names_.split()
        binds = {}
        for part in split_top(rest, ";"):
            k, _, v = part.partition("=")
            binds[k.strip()] = v.strip()
        if set(binds) != set(lm.vars):
            raise AnchorMismatch(f"hint for lemma {name} must bind exactly {sorted(lm.vars)} (got {sorted(binds)})")
        saved = getattr(self, "force_uf", False)
        self.force_uf = True  # lemma instances speak about the operation SYMBOLS (SLICE, LOWER, ...): no native definitions are unfolded
        try:
            src = st.clone()
            bvars = []
            for bn in bound:
                bz = fresh(bn, I)
                bvars.append(bz)
                src.store[bn] = VInt(bz)
            if bound:
                src.in_binder += 1
            view = src.clone()
            view.old = view
            n_src = len(src.path)
            view.store = {k: self.spec_val(e, src, extra) for k, e in binds.items()}
            if lm.two_heaps:
                if at_label not in st.labels:
                    raise AnchorMismatch(f"two-heap lemma {name} needs `{name}@<label>` with a label of the contract (got {at_label!r})")
                vo = view.clone()
                vo.heap = dict(st.labels[at_label].heap)
                vo.old = vo
                view.old = vo
            view.path = list(src.path)
            view.facts_seen |= src.facts_seen
            body = self.spec_bool(lm.goal, view)
            if lm.hyps:
                body = z3.Implies(z3.And(*[self.spec_bool(h, view) for h in lm.hyps]), body)
            # ground facts of the encoding met while building the instance (lengths of LOWER(..) etc.) belong to the caller's state
            for c in view.path[min(n_src, len(st.path)):]:
                if c.get_id() in view.facts_seen and not any(any(bz.eq(x) for bz in bvars) for x in _subterms(c)):
                    st.fact(c)
            return z3.ForAll(bvars, body) if bvars else body
        finally:
            self.force_uf = saved

    def iter_source(self, node, st: State):
        """for-loop source -> dict(n=len, elems=[(VList...)], kind) ."""
        if isinstance(node, ast.Call) and isinstance(node.func, ast.Name) and node.func.id == "enumerate":
            inner = self.iter_source(node.args[0], st)
            inner["enumerate"] = True
            return inner
        if isinstance(node, ast.Call) and isinstance(node.func, ast.Name) and node.func.id == "zip":
            a = self.iter_source(node.args[0], st)
            b = self.iter_source(node.args[1], st)
            return {"n": zmin(a["n"], b["n"]), "zip": (a, b)}
        if isinstance(node, ast.Call) and isinstance(node.func, ast.Name) and node.func.id == "range":
            args = [self.eval(a, st) for a in node.args]
            if len(args) == 1:
                lo, hi = z3.IntVal(0), args[0].z
            else:
                lo, hi = args[0].z, args[1].z
            return {"n": zmax(hi - lo, z3.IntVal(0)), "range_lo": lo}
        v = self.eval(node, st)
        if isinstance(v, VList):
            return {"n": v.n, "arr": v.arr, "ek": v.ek, "owner": v.owner}
        if isinstance(v, VBytes):
            return {"n": z3.Length(v.z), "bytes": v.z}
        if isinstance(v, VObj) and v.cls == "matchiter":
            return {"n": v.attrs["n"], "matchiter": v}
        raise Unsupported(f"iteration over {v}")

    def iter_elem(self, it, i, st: State) -> V:
        if "zip" in it:
            a, b = it["zip"]
            return VTuple([self.iter_elem(a, i, st), self.iter_elem(b, i, st)])
        if "range_lo" in it:
            e = VInt(it["range_lo"] + i)
        elif "bytes" in it:
            e = self.bytes_index(VBytes(it["bytes"]), i, st, checked=False)
        elif "matchiter" in it:
            e = BT.match_at(self, it["matchiter"], i, st)
        else:
            e = elem_val(it["ek"], it["arr"][i])
            if it["ek"] == "ref":
                st.fact(z3.And(e.z >= 0, e.z < st.alloc))
        if it.get("enumerate"):
            return VTuple([VInt(i), e])
        return e

    def bind_iter_target(self, target, it, i, st: State):
        self.assign(target, self.iter_elem(it, i, st), st)

    # ------------------------------------------------------------------ assignment
    def local_list_kind(self, name: str):
        """Element kind of a local list variable: contract hint, annotation, or the function's return annotation."""
        t = self.c.types.get(name)
        if t is None:
            t = self.local_types().get(name)
        if t is None:
            return None
        t = t.replace(" ", "")
        if t in ("Registry",):
            return None
        if t.lower().startswith("list["):
            if t[5:-1].startswith("obj:"):
                return t[5:-1]
            return {"int": "int", "bytes": "bytes", "Node": "ref", "str": "str"}.get(t[5:-1])
        return None

    def local_types(self):
        if getattr(self, "_ltypes_for", None) is self.fn:
            return self._ltypes
        out = {}
        ret = self.ann_to_type(self.fn.returns)
        for n in ast.walk(self.fn):
            if isinstance(n, ast.AnnAssign) and isinstance(n.target, ast.Name):
                out[n.target.id] = ast.unparse(n.annotation)
            if isinstance(n, ast.Return) and isinstance(n.value, ast.Name) and ret:
                out.setdefault(n.value.id, ret)
        self._ltypes_for, self._ltypes = self.fn, out
        return out

    def typed_empty(self, ek):
        arr = z3.K(I, z3.IntVal(0)) if ek in ("int", "ref") or ek.startswith("obj:") else z3.K(I, z3.StringVal(""))
        return VList(arr, z3.IntVal(0), ek, None, z3.StringVal("") if ek in ("int", "bytes") else None)

    def assign(self, t, v: V, st: State):
        if isinstance(t, ast.Name):
            if isinstance(v, VList) and v.ek is None:
                ek = self.local_list_kind(t.id)
                if ek is not None:
                    v = self.typed_empty(ek)
            st.store[t.id] = v
            return
        if isinstance(t, (ast.Tuple, ast.List)):
            items = self.unpack(v, len(t.elts), st)
            for e, x in zip(t.elts, items):
                self.assign(e, x, st)
            return
        if isinstance(t, ast.Attribute):
            obj = self.eval(t.value, st)
            if isinstance(obj, VRef):
                self.heap_store(obj, t.attr, v, st)
                return
            if isinstance(obj, VObj):
                if obj.cls == "Multidecoder" and self.fname.split(".")[-1] != "__init__":
                    # C09: a scan never writes to the scanner object (history / thread independence)
                    self.oblige(st, "frame/write", f"self.{t.attr}@L{getattr(self, 'cur_line', 0) - self.fn.lineno}", z3.BoolVal(False), getattr(self, "cur_line", 0), note="store to an attribute of the shared scanner object")
                st.objattrs.setdefault(id(obj), {})[t.attr] = v
                return
            raise Unsupported(f"attribute store on {obj}")
        if isinstance(t, ast.Subscript):
            base = self.eval(t.value, st)
            if isinstance(base, VList) and not isinstance(t.slice, ast.Slice):
                i = self.eval(t.slice, st)
                idx = self.list_index(base, i.z, st)
                newl = VList(z3.Store(base.arr, idx, v.z), base.n, base.ek, base.owner)
                self.store_back(t.value, newl, st)
                return
        raise Unsupported(f"assignment target {ast.unparse(t)}")

    def store_back(self, lv, newl: VList, st: State):
        if isinstance(lv, ast.Name):
            st.store[lv.id] = newl
        elif isinstance(lv, ast.Attribute) and lv.attr == "children":
            obj = self.eval(lv.value, st)
            self.heap_store(obj, "children", newl, st)
        else:
            raise Unsupported(f"list mutation through {ast.unparse(lv)}")

    def unpack(self, v: V, n: int, st: State):
        if isinstance(v, VTuple):
            if len(v.items) != n:
                raise Unsupported("static unpack arity mismatch")
            return v.items
        if isinstance(v, VList):
            self.raise_if(st, v.n != n, "ValueError", "unpack")
            return [elem_val(v.ek, v.arr[i]) for i in range(n)]
        raise Unsupported(f"unpack of {v}")

    # ------------------------------------------------------------------ heap
    def heap_load(self, r: VRef, f: str, st: State) -> V:
        self.raise_if(st, r.z == -1, "AttributeError", f"None.{f}")
        if self.c.reads and not getattr(self, "spec_mode", False) and self.call_depth == 0:
            for pname, allowed in self.c.reads.items():
                if f not in allowed and f != "original":
                    p0 = self.entry.store[pname]
                    rs = z3.simplify(r.z == p0.z)
                    if not z3.is_false(rs):
                        self.oblige(st, "frame/read", f"{pname}.{f}@L{getattr(self, 'cur_line', 0) - self.fn.lineno}", r.z != p0.z, getattr(self, "cur_line", 0))
        if f == "children":
            return VList(st.heap["children"][r.z], st.heap["nchildren"][r.z], "ref", owner=r.z)
        if f in HEAP_FIELDS:
            kind = HEAP_FIELDS[f][1]
            z = st.heap[f][r.z]
            if kind == "ref":
                return VRef(z)
            return elem_val(kind, z)
        if f == "original":
            c = self.contract_for("multidecoder.node.Node.original")
            if c is not None:
                return self.apply_contract(c, [r], {}, st)
            p = st.heap["parent"][r.z]
            val = st.heap["value"]
            return VBytes(z3.If(p != -1, str_slice(val[p], st.heap["start"][r.z], st.heap["end"][r.z]), val[r.z]))
        raise Unsupported(f"attribute {f} of a Node")

    def heap_store(self, r: VRef, f: str, v: V, st: State):
        self.raise_if(st, r.z == -1, "AttributeError", f"None.{f}=")
        if f == "children":
            if not isinstance(v, VList):
                raise Unsupported("children := non-list")
            arr = v.arr
            if v.ek is None:
                arr = z3.K(I, z3.IntVal(0))
            st.heap["children"] = z3.Store(st.heap["children"], r.z, arr)
            st.heap["nchildren"] = z3.Store(st.heap["nchildren"], r.z, v.n)
            return
        if f not in HEAP_FIELDS:
            raise Unsupported(f"store to attribute {f}")
        if isinstance(v, VNone):
            z = z3.IntVal(-1)
        else:
            z = v.z
        st.heap[f] = z3.Store(st.heap[f], r.z, z)

    def alloc_node(self, st: State) -> VRef:
        r = st.alloc
        st.alloc = st.alloc + 1
        return VRef(r)

    # ------------------------------------------------------------------ raising
    def raise_if(self, st: State, cond, exc: str, desc: str):
        cond = z3.simplify(cond)
        if z3.is_false(cond):
            return
        if getattr(self, "spec_mode", False):
            return
        g = z3.And(*st.guards, cond) if st.guards else cond
        # the raising path continues from the state AT the raise: later effects of the same statement (a store through a method call, a walrus) have not happened
        snap = (dict(st.store), dict(st.heap), st.alloc, {k: dict(v) for k, v in st.objattrs.items()}, list(st.calllog), len(st.path))
        st.pending.append((g, exc, desc, getattr(self, "cur_line", 0), snap))

    # ------------------------------------------------------------------ expressions
    def eval(self, node, st: State) -> V:
        m = getattr(self, "expr_" + type(node).__name__, None)
        if m is None:
            raise Unsupported(f"expression {type(node).__name__}: {ast.unparse(node)[:60]}")
        return m(node, st)

    def expr_Constant(self, node, st):
        v = node.value
        if isinstance(v, bool):
            return VBool(v)
        if isinstance(v, int):
            return VInt(v)
        if isinstance(v, bytes):
            return VBytes(v)
        if isinstance(v, str):
            return VStr(v)
        if v is None:
            return VNone()
        raise Unsupported(f"constant {v!r}")

    def from_py(self, obj, name="") -> V:
        if isinstance(obj, bool):
            return VBool(obj)
        if isinstance(obj, int):
            return VInt(obj)
        if isinstance(obj, bytes):
            return VBytes(obj)
        if isinstance(obj, str):
            return VStr(obj)
        if obj is None:
            return VNone()
        if isinstance(obj, tuple) and all(isinstance(x, (int, bytes, str, bool)) for x in obj):
            return VTuple([self.from_py(x) for x in obj])
        return VPy(obj, name)

    def lookup(self, name: str, st: State) -> V:
        if name in st.store:
            return st.store[name]
        # closure of a nested function
        clo = getattr(self, "closures", [])
        for c in reversed(clo):
            if name in c:
                return c[name]
        if getattr(self, "spec_mode", False):
            for lp in self.c.loops.values():
                if name in lp.ghosts:
                    # a loop ghost referenced on a path that never reached the loop: unconstrained
                    return self.sym_of_type(lp.ghosts[name].type, f"{name}!unreached", st)
        mod = getattr(self, "cur_module", None) or self.mi.mod
        if hasattr(mod, name):
            obj = getattr(mod, name)
            import types

            if isinstance(obj, types.FunctionType):
                q = f"{obj.__module__}.{obj.__qualname__}"
                return VPy(obj, q)
            return self.from_py(obj, f"{mod.__name__}.{name}")
        import builtins

        if hasattr(builtins, name):
            return VPy(getattr(builtins, name), "builtins." + name)
        if name in SPECS:
            return VPy(SPECS[name], "spec." + name)
        raise UndefinedName(f"name {name}")

    def expr_Name(self, node, st):
        return self.lookup(node.id, st)

    def expr_Tuple(self, node, st):
        items = []
        for e in node.elts:
            if isinstance(e, ast.Starred):
                v = self.eval(e.value, st)
                if isinstance(v, VTuple):
                    items.extend(v.items)
                else:
                    raise Unsupported("starred non-tuple")
            else:
                items.append(self.eval(e, st))
        return VTuple(items)

    def expr_List(self, node, st):
        items = [self.eval(e, st) for e in node.elts]
        if not items:
            return VList(None, z3.IntVal(0), None)
        ek = {"int": "int", "bytes": "bytes", "ref": "ref", "str": "str"}.get(items[0].kind)
        if ek is None:
            raise Unsupported("list literal of " + items[0].kind)
        arr = z3.K(I, z3.IntVal(0)) if ek in ("int", "ref") else z3.K(I, z3.StringVal(""))
        for i, x in enumerate(items):
            arr = z3.Store(arr, i, x.z)
        return VList(arr, z3.IntVal(len(items)), ek)

    def expr_Set(self, node, st):
        vals = []
        for e in node.elts:
            if not isinstance(e, ast.Constant):
                raise Unsupported("set display with non-constant elements")
            vals.append(e.value)
        return VPy(frozenset(vals), f"set-literal@L{getattr(node, 'lineno', 0)}")

    def expr_Dict(self, node, st):
        if all(isinstance(k, ast.Constant) and isinstance(v, ast.Constant) for k, v in zip(node.keys, node.values)):
            return VPy({k.value: v.value for k, v in zip(node.keys, node.values)}, f"dict-literal@L{getattr(node, 'lineno', 0)}")
        if all(isinstance(k, ast.Call) or isinstance(k, ast.Constant) for k in node.keys):
            try:
                d = {}
                for k, v in zip(node.keys, node.values):
                    kv, vv = self.eval(k, st), self.eval(v, st)
                    d[int_const(kv.z)] = int_const(vv.z)
                return VPy(d, f"dict-literal@L{getattr(node, 'lineno', 0)}")
            except Exception:  # noqa: BLE001
                pass
        if all(isinstance(k, ast.Constant) and isinstance(k.value, str) for k in node.keys):
            return BT.json_make(self, {k.value: self.eval(v, st) for k, v in zip(node.keys, node.values)}, st)
        raise Unsupported("dict display")

    def expr_JoinedStr(self, node, st):
        return VStr(fresh("fstring", S))

    def expr_Lambda(self, node, st):
        return VFunc(node, st.store, "<lambda>")

    def expr_NamedExpr(self, node, st):
        v = self.eval(node.value, st)
        st.store[node.target.id] = v
        return v

    def expr_IfExp(self, node, st):
        c = self.truthy(self.eval(node.test, st), st)
        cs = z3.simplify(c)
        if z3.is_true(cs):
            return self.eval(node.body, st)
        if z3.is_false(cs):
            return self.eval(node.orelse, st)
        st.guards.append(c)
        a = self.eval(node.body, st)
        st.guards.pop()
        st.guards.append(z3.Not(c))
        b = self.eval(node.orelse, st)
        st.guards.pop()
        return self.ite(c, a, b)

    def ite(self, c, a: V, b: V) -> V:
        if isinstance(a, VNone) and isinstance(b, VNone):
            return a
        if isinstance(a, VRef) and isinstance(b, VNone):
            return VRef(z3.If(c, a.z, -1))
        if isinstance(a, VNone) and isinstance(b, VRef):
            return VRef(z3.If(c, -1, b.z))
        if isinstance(b, VNone) and isinstance(a, (VInt, VBytes, VStr)):
            return VOpt(z3.Not(c), a)
        if isinstance(a, VNone) and isinstance(b, (VInt, VBytes, VStr)):
            return VOpt(c, b)
        if type(a) is not type(b):
            if isinstance(a, VBool) and isinstance(b, VInt):
                a = VInt(z3.If(a.z, 1, 0))
            elif isinstance(b, VBool) and isinstance(a, VInt):
                b = VInt(z3.If(b.z, 1, 0))
            else:
                raise Unsupported(f"conditional of {a.kind} / {b.kind}")
        if isinstance(a, (VInt, VBool, VBytes, VStr, VRef)):
            return type(a)(z3.If(c, a.z, b.z))
        if isinstance(a, VTuple) and len(a.items) == len(b.items):
            return VTuple([self.ite(c, x, y) for x, y in zip(a.items, b.items)])
        if isinstance(a, VList) and a.ek == b.ek:
            return VList(z3.If(c, a.arr, b.arr), z3.If(c, a.n, b.n), a.ek)
        if isinstance(a, VList) and (a.ek is None or b.ek is None):
            full = a if a.ek else b
            e = a if a.ek is None else b
            earr = full.arr
            return VList(full.arr, z3.If(c, a.n, b.n), full.ek)
        raise Unsupported(f"conditional of {a}")

    def truthy(self, v: V, st: State):
        if isinstance(v, VBool):
            return v.z
        if isinstance(v, VInt):
            return v.z != 0
        if isinstance(v, (VBytes, VStr)):
            return z3.Length(v.z) > 0
        if isinstance(v, VList):
            return v.n > 0
        if isinstance(v, VRef):
            return v.z != -1
        if isinstance(v, VNone):
            return z3.BoolVal(False)
        if isinstance(v, VOpt):
            return z3.And(z3.Not(v.none), self.truthy(v.val, st))
        if isinstance(v, VTuple):
            return z3.BoolVal(len(v.items) > 0)
        if isinstance(v, VPy):
            return z3.BoolVal(bool(v.obj))
        if isinstance(v, VObj) and "_truthy" in v.attrs:
            return v.attrs["_truthy"]
        if isinstance(v, VObj):
            return z3.BoolVal(True)
        raise Unsupported(f"truthiness of {v}")

    def expr_BoolOp(self, node, st):
        vals = []
        is_and = isinstance(node.op, ast.And)
        npush = 0
        for e in node.values:
            v = self.eval(e, st)
            vals.append(v)
            t = self.truthy(v, st)
            st.guards.append(t if is_and else z3.Not(t))
            npush += 1
        for _ in range(npush):
            st.guards.pop()
        if all(isinstance(v, VBool) for v in vals):
            return VBool((z3.And if is_and else z3.Or)(*[v.z for v in vals]))
        if len({v.kind for v in vals}) > 1:
            # operands of different kinds: only the truth value is meaningful (conditions)
            return VBool((z3.And if is_and else z3.Or)(*[self.truthy(v, st) for v in vals]))
        # value-returning and/or
        res = vals[-1]
        for v in reversed(vals[:-1]):
            t = self.truthy(v, st)
            res = self.ite(t, res, v) if is_and else self.ite(t, v, res)
        return res

    def expr_UnaryOp(self, node, st):
        v = self.eval(node.operand, st)
        if isinstance(node.op, ast.Not):
            return VBool(z3.Not(self.truthy(v, st)))
        if isinstance(node.op, ast.USub) and isinstance(v, VInt):
            return VInt(-v.z)
        if isinstance(node.op, ast.UAdd) and isinstance(v, VInt):
            return v
        raise Unsupported(f"unary {ast.unparse(node)}")

    def expr_BinOp(self, node, st):
        a = self.eval(node.left, st)
        b = self.eval(node.right, st)
        return self.binop(node.op, a, b, st)

    def binop(self, op, a: V, b: V, st: State) -> V:
        if isinstance(a, VBool):
            a = VInt(z3.If(a.z, 1, 0))
        if isinstance(b, VBool):
            b = VInt(z3.If(b.z, 1, 0))
        if isinstance(a, VInt) and isinstance(b, VInt):
            x, y = a.z, b.z
            if isinstance(op, ast.Add):
                return VInt(x + y)
            if isinstance(op, ast.Sub):
                return VInt(x - y)
            if isinstance(op, ast.Mult):
                return VInt(x * y)
            if isinstance(op, (ast.FloorDiv, ast.Mod)):
                self.raise_if(st, y == 0, "ZeroDivisionError", "div")
                q = z3.If(y > 0, x / y, (-x) / (-y))
                return VInt(q) if isinstance(op, ast.FloorDiv) else VInt(x - y * q)
            if isinstance(op, ast.BitXor):
                return VInt(BT.int_xor(self, x, y, st))
            if isinstance(op, ast.Div):
                return BT.true_div(self, x, y, st)
        if isinstance(a, (VBytes, VStr)) and type(a) is type(b) and isinstance(op, ast.Add):
            return type(a)(z3.Concat(a.z, b.z))
        if isinstance(a, VList) and isinstance(b, VList) and isinstance(op, ast.Add):
            if b.ek is None:
                return a
            if a.ek is None:
                return b
            if a.ek != b.ek:
                raise Unsupported("concatenation of lists of different kinds")
            nb = z3.simplify(b.n)
            if z3.is_int_value(nb) and nb.as_long() <= 4:
                arr = a.arr
                for i in range(nb.as_long()):
                    arr = z3.Store(arr, z3.simplify(a.n + i), z3.simplify(b.arr[i]))
                return VList(arr, z3.simplify(a.n + nb), a.ek)
            k = fresh("k", I)
            return VList(z3.Lambda([k], z3.If(k < a.n, a.arr[k], b.arr[k - a.n])), a.n + b.n, a.ek)
        if isinstance(a, VBytes) and isinstance(b, VInt) and isinstance(op, ast.Mult):
            return BT.bytes_repeat(self, a, b, st)
        if isinstance(a, VObj) and a.cls == "ratio" or isinstance(b, VObj) and getattr(b, "cls", "") == "ratio":
            return BT.ratio_op(self, op, a, b, st)
        raise Unsupported(f"binary op {type(op).__name__} on {a.kind},{b.kind}")

    def expr_Compare(self, node, st):
        left = self.eval(node.left, st)
        conj = []
        for op, rn in zip(node.ops, node.comparators):
            right = self.eval(rn, st)
            conj.append(self.compare(op, left, right, st))
            left = right
        return VBool(z3.And(*conj) if len(conj) > 1 else conj[0])

    def compare(self, op, a: V, b: V, st: State):
        if isinstance(op, (ast.Is, ast.IsNot)):
            r = self.identical(a, b)
            return r if isinstance(op, ast.Is) else z3.Not(r)
        if isinstance(op, (ast.In, ast.NotIn)):
            r = self.contains(b, a, st)
            return r if isinstance(op, ast.In) else z3.Not(r)
        if isinstance(a, VBool) and isinstance(b, VInt):
            a = VInt(z3.If(a.z, 1, 0))
        if isinstance(b, VBool) and isinstance(a, VInt):
            b = VInt(z3.If(b.z, 1, 0))
        if getattr(self, "spec_mode", False):
            # specifications may compare references with allocation counters
            if isinstance(a, VRef) and isinstance(b, VInt):
                a = VInt(a.z)
            if isinstance(b, VRef) and isinstance(a, VInt):
                b = VInt(b.z)
        if isinstance(op, (ast.Eq, ast.NotEq)):
            r = self.equal(a, b, st)
            return r if isinstance(op, ast.Eq) else z3.Not(r)
        if getattr(self, "spec_mode", False):
            # inside specifications an ordering against None only occurs behind a short-circuit guard (`r is None or 0 <= r`)
            if isinstance(a, VNone) or isinstance(b, VNone):
                return z3.BoolVal(False)
            if isinstance(a, VOpt) and isinstance(a.val, VInt):
                return z3.And(z3.Not(a.none), self.compare(op, a.val, b, st))
            if isinstance(b, VOpt) and isinstance(b.val, VInt):
                return z3.And(z3.Not(b.none), self.compare(op, a, b.val, st))
        if isinstance(a, VInt) and isinstance(b, VInt):
            x, y = a.z, b.z
            return {ast.Lt: x < y, ast.LtE: x <= y, ast.Gt: x > y, ast.GtE: x >= y}[type(op)]
        if isinstance(a, (VBytes, VStr)) and type(a) is type(b):
            x, y = a.z, b.z
            return {ast.Lt: x < y, ast.LtE: x <= y, ast.Gt: y < x, ast.GtE: y <= x}[type(op)]
        if isinstance(a, VTuple) and isinstance(b, VTuple) and len(a.items) == len(b.items):
            # lexicographic
            def lex(i, strict_op):
                if i == len(a.items) - 1:
                    return self.compare(strict_op, a.items[i], b.items[i], st)
                lt = self.compare(ast.Lt() if isinstance(strict_op, (ast.Lt, ast.LtE)) else ast.Gt(), a.items[i], b.items[i], st)
                eq = self.equal(a.items[i], b.items[i], st)
                return z3.Or(lt, z3.And(eq, lex(i + 1, strict_op)))

            return lex(0, op)
        if isinstance(a, VObj) and a.cls == "ratio" or isinstance(b, VObj) and getattr(b, "cls", "") == "ratio":
            return BT.ratio_cmp(self, op, a, b, st)
        raise Unsupported(f"comparison {type(op).__name__} on {a.kind},{b.kind}")

    def identical(self, a: V, b: V):
        if isinstance(b, VNone):
            if isinstance(a, VObj) and "_isnone" in a.attrs:
                return a.attrs["_isnone"]
            if isinstance(a, VNone):
                return z3.BoolVal(True)
            if isinstance(a, VRef):
                return a.z == -1
            if isinstance(a, VOpt):
                return a.none
            if isinstance(a, VObj) and "_truthy" in a.attrs:
                return z3.Not(a.attrs["_truthy"])
            return z3.BoolVal(False)
        if isinstance(a, VNone):
            return self.identical(b, a)
        if isinstance(a, VRef) and isinstance(b, VRef):
            return a.z == b.z
        if isinstance(a, VObj) and isinstance(b, VObj):
            return z3.BoolVal(a is b)
        if isinstance(a, VBytes) and isinstance(b, VBytes) and a.z.eq(b.z):
            return z3.BoolVal(True)
        raise Unsupported(f"identity of {a.kind},{b.kind}")

    def equal(self, a: V, b: V, st: State):
        if isinstance(a, VNone) or isinstance(b, VNone):
            return self.identical(a, b)
        if isinstance(a, VOpt) and not isinstance(b, VOpt):
            return z3.And(z3.Not(a.none), self.equal(a.val, b, st))
        if isinstance(b, VOpt) and not isinstance(a, VOpt):
            return self.equal(b, a, st)
        if isinstance(a, (VInt, VBool, VBytes, VStr)) and type(a) is type(b):
            return a.z == b.z
        if isinstance(a, VRef) and isinstance(b, VRef):
            c = self.contract_for("multidecoder.node.Node.__eq__")
            if getattr(self, "spec_mode", False) or c is None:
                return a.z == b.z  # in specifications `==` on nodes is reference equality; use tree_eq() for structure
            return self.apply_contract(c, [a, b], {}, st).z
        if isinstance(a, VObj) and isinstance(b, VObj):
            return z3.BoolVal(a is b)
        if isinstance(a, VTuple) and isinstance(b, VTuple):
            if len(a.items) != len(b.items):
                return z3.BoolVal(False)
            return z3.And(*[self.equal(x, y, st) for x, y in zip(a.items, b.items)])
        if isinstance(a, VList) and isinstance(b, VList):
            if a.ek is None or b.ek is None:
                return a.n == b.n
            if a.ek == "ref" and not getattr(self, "spec_mode", False):
                return self.ref_lists_equal(a, b, st)
            k = fresh("k", I)
            return z3.And(a.n == b.n, z3.ForAll([k], z3.Implies(z3.And(0 <= k, k < a.n), a.arr[k] == b.arr[k])))
        if a.kind != b.kind and {a.kind, b.kind} <= {"int", "bytes", "str", "bool", "tuple", "list"}:
            return z3.BoolVal(False)
        raise Unsupported(f"equality of {a.kind},{b.kind}")

    def ref_lists_equal(self, a: VList, b: VList, st: State):
        """list == list on lists of nodes: equal lengths and, element by element, identity or Node.__eq__ (CPython's PyObject_RichCompare
        shortcut).  Node.__eq__ is called implicitly for an arbitrary index: its precondition and - inside Node.__eq__ itself - its
        recursion measure are obligations for every index; its result is the specification expression of its contract (`result_is`)."""
        c = self.contract_for("multidecoder.node.Node.__eq__")
        if c is None or not c.result_is:
            raise Unsupported("== on lists of nodes in code (needs a Node.__eq__ contract with result_is)")
        if c.modifies or c.fresh_nodes or c.raises or c.raises_iff:
            raise Unsupported("Node.__eq__ must be pure for list comparison")
        k = fresh("k", I)
        view = st.clone()
        view.in_binder += 1
        view.store = {"self": VRef(a.arr[k]), "other": VRef(b.arr[k])}
        for nm_, src_ in c.defs.items():
            view.store[nm_] = VFunc(ast.parse(src_.strip(), mode="eval").body, {}, nm_)
        view.old = view
        rng = z3.And(0 <= k, k < a.n, k < b.n)
        for nm, e in c.requires.items():
            self.oblige(st, "pre", f"{c.qualname.split('multidecoder.')[-1]}/{nm}@L{getattr(self, 'cur_line', 0) - self.fn.lineno} (list element)",
                        z3.ForAll([k], z3.Implies(rng, self.spec_bool(e, view))), getattr(self, "cur_line", 0))
        if c.qualname == self.qualname and c.decreases:
            d0 = self.spec_val(c.decreases, self.entry)
            d1 = self.spec_val(c.decreases, view)
            self.oblige(st, "dec/rec", f"L{getattr(self, 'cur_line', 0) - self.fn.lineno} (list element)", z3.ForAll([k], z3.Implies(rng, self.lex_less(d1, d0))), getattr(self, "cur_line", 0))
        saved = getattr(self, "force_uf", False)
        self.force_uf = True
        try:
            eq_k = self.spec_bool(c.result_is, view)
        finally:
            self.force_uf = saved
        return z3.And(a.n == b.n, z3.ForAll([k], z3.Implies(z3.And(0 <= k, k < a.n), z3.Or(a.arr[k] == b.arr[k], eq_k))))

    def contains(self, container: V, x: V, st: State):
        if isinstance(container, VBytes) and isinstance(x, VBytes):
            return z3.Contains(container.z, x.z)
        if isinstance(container, VBytes) and isinstance(x, VInt):
            self.raise_if(st, z3.Or(x.z < 0, x.z > 255), "ValueError", "byte in bytes")
            return z3.Contains(container.z, z3.StrFromCode(x.z)) if x.char is None else z3.Contains(container.z, x.char)
        if isinstance(container, VStr) and isinstance(x, VStr):
            return z3.Contains(container.z, x.z)
        if isinstance(container, VObj) and container.cls == "strs" and isinstance(x, VStr):
            return BT.uf(self, "MEMBER_STRS", I, S, B)(container.attrs["_id"], x.z)
        if isinstance(container, VTuple):
            return z3.Or(*[self.equal(x, it, st) for it in container.items]) if container.items else z3.BoolVal(False)
        if isinstance(container, VPy) and isinstance(container.obj, (dict, set, frozenset, list, tuple)):
            keys = list(container.obj)
            if len(keys) <= 64:
                return z3.Or(*[self.equal(x, self.from_py(k), st) for k in keys]) if keys else z3.BoolVal(False)
            return BT.big_set_member(self, container, x, st)
        if isinstance(container, VList) and container.ek in ("int", "bytes", "str") and container.ek == x.kind:
            k = fresh("k", I)
            return z3.Exists([k], z3.And(0 <= k, k < container.n, container.arr[k] == x.z))
        raise Unsupported(f"membership in {container}")

    # ---- subscripts
    def bytes_index(self, b: VBytes, i, st: State, checked=True) -> VInt:
        n = z3.Length(b.z)
        si = z3.simplify(i)
        if getattr(self, "spec_mode", False):
            checked = False
        if checked:
            self.raise_if(st, z3.Or(i >= n, i < -n), "IndexError", "bytes index")
        if z3.is_int_value(si) and si.as_long() < 0:
            idx = n + i
        elif z3.is_int_value(si) or getattr(self, "spec_mode", False):
            idx = i
        else:
            idx = z3.If(i < 0, n + i, i)
        if getattr(st, "in_binder", 0) or "byte" in self.c.opaque:
            f = BT.uf(self, "BYTE", S, I, I)
            code = f(b.z, idx)
            if not getattr(st, "in_binder", 0):
                st.fact(z3.Implies(z3.And(0 <= idx, idx < n), z3.And(code >= 0, code < 256)))
            return VInt(code)
        ch = z3.SubString(b.z, idx, 1)
        code = z3.StrToCode(ch)
        st.fact(z3.Implies(z3.And(0 <= idx, idx < n), z3.And(code >= 0, code < 256, z3.Length(ch) == 1)))
        if "BYTE" in self.uf:
            st.fact(self.uf["BYTE"](b.z, idx) == code)
        return VInt(code, char=ch)

    def list_index(self, l: VList, i, st: State):
        if getattr(self, "spec_mode", False):
            si = z3.simplify(i)
            if z3.is_int_value(si) and si.as_long() >= 0 and getattr(l, "split_positions", None) is not None and not getattr(st, "in_binder", 0):
                from .regexlib import split_index_facts

                split_index_facts(l, si.as_long(), st)
            return l.n + i if z3.is_int_value(si) and si.as_long() < 0 else i
        self.raise_if(st, z3.Or(i >= l.n, i < -l.n), "IndexError", "list index")
        si = z3.simplify(i)
        if getattr(l, "split_positions", None) is not None and not getattr(st, "in_binder", 0):
            from .regexlib import split_index_facts

            if z3.is_int_value(si) and si.as_long() >= 0:
                split_index_facts(l, si.as_long(), st)
            else:
                split_index_facts(l, z3.If(i < 0, l.n + i, i), st)
        if z3.is_int_value(si):
            return i if si.as_long() >= 0 else l.n + i
        return z3.If(i < 0, l.n + i, i)

    def expr_Subscript(self, node, st):
        base = self.eval(node.value, st)
        sl = node.slice
        if isinstance(sl, ast.Slice):
            lo = self.eval(sl.lower, st).z if sl.lower is not None else None
            hi = self.eval(sl.upper, st).z if sl.upper is not None else None
            step = None
            if sl.step is not None:
                sv = self.eval(sl.step, st)
                step = int_const(sv.z) if is_int_const(sv.z) else None
                if step is None:
                    raise Unsupported("symbolic slice step")
            return BT.do_slice(self, base, lo, hi, step, st)
        idx = self.eval(sl, st)
        if isinstance(base, VBytes) and isinstance(idx, VInt):
            return self.bytes_index(base, idx.z, st)
        if isinstance(base, VList) and isinstance(idx, VInt):
            if base.ek is None:
                self.raise_if(st, z3.BoolVal(True), "IndexError", "index into empty list")
                return VInt(0)
            i = self.list_index(base, idx.z, st)
            e = elem_val(base.ek, base.arr[i])
            if base.ek == "ref":
                st.fact(z3.Implies(z3.And(0 <= i, i < base.n), z3.And(e.z >= 0, e.z < st.alloc)))
            return e
        if isinstance(base, VTuple) and isinstance(idx, VInt) and is_int_const(idx.z):
            return base.items[int_const(idx.z)]
        if isinstance(base, VJson):
            key = z3.simplify(idx.z) if isinstance(idx, VStr) else None
            if key is None or not z3.is_string_value(key):
                raise Unsupported("JSON object subscripted with a non-constant key")
            return BT.json_get(self, base, key.as_string(), st)
        if isinstance(base, VPy) and isinstance(base.obj, dict):
            items = list(base.obj.items())
            hit = [self.equal(idx, self.from_py(k), st) for k, _ in items]
            self.raise_if(st, z3.Not(z3.Or(*hit)) if hit else z3.BoolVal(True), "KeyError", "dict key")
            res = self.from_py(items[-1][1])
            for (k, v), c in reversed(list(zip(items, hit))[:-1]):
                res = self.ite(c, self.from_py(v), res)
            return res
        return BT.subscript(self, base, idx, st)

    def expr_Attribute(self, node, st):
        if isinstance(node.value, ast.Name) and node.value.id in st.labels and node.value.id not in st.store:
            lab = st.labels[node.value.id]
            if node.attr not in lab.store:
                raise Unsupported(f"{node.value.id}.{node.attr}: no such variable in the labelled state")
            return lab.store[node.attr]
        obj = self.eval(node.value, st)
        if isinstance(obj, VRef):
            return self.heap_load(obj, node.attr, st)
        if isinstance(obj, VObj):
            ov = st.objattrs.get(id(obj), {})
            if node.attr in ov:
                return ov[node.attr]
            if node.attr in obj.attrs:
                return obj.attrs[node.attr]
            return BT.obj_attr(self, obj, node.attr, st)
        if isinstance(obj, VObjRef):
            return BT.objref_attr(self, obj, node.attr, st)
        if isinstance(obj, VPy):
            if hasattr(obj.obj, node.attr):
                return self.from_py(getattr(obj.obj, node.attr), f"{obj.name}.{node.attr}")
        raise Unsupported(f"attribute {node.attr} of {obj}")

    # ---- comprehensions are handled by the builtin table (schemas)
    def expr_ListComp(self, node, st):
        return BT.comprehension(self, node, st, "list")

    def expr_GeneratorExp(self, node, st):
        return BT.comprehension(self, node, st, "gen")

    # ------------------------------------------------------------------ calls
    def contract_for(self, qual: str):
        return CONTRACTS.get(qual)

    def resolve_callee(self, node: ast.Call, st: State):
        """-> ('contract', Contract, argvals_prefix) | ('builtin', name, recv) | ('func', VFunc) | ('py', obj)"""
        f = node.func
        if isinstance(f, ast.Attribute):
            recv = self.eval(f.value, st)
            if isinstance(recv, VRef):
                q = f"multidecoder.node.Node.{f.attr}"
                c = self.contract_for(q)
                if c is not None:
                    return ("contract", c, [recv])
                raise Unsupported(f"method Node.{f.attr} without contract")
            if isinstance(recv, VObj) and recv.cls == "Multidecoder":
                q = f"multidecoder.multidecoder.Multidecoder.{f.attr}"
                c = self.contract_for(q)
                if c is not None:
                    return ("contract", c, [recv])
            if isinstance(recv, VPy) and hasattr(recv.obj, f.attr):
                return self.resolve_py(getattr(recv.obj, f.attr), f"{recv.name}.{f.attr}")
            return ("method", f.attr, recv, f.value)
        v = self.eval(f, st)
        if isinstance(v, VFunc):
            return ("func", v)
        if isinstance(v, VPy):
            return self.resolve_py(v.obj, v.name)
        if isinstance(v, VObj) and v.cls == "callable":
            return ("callable", v)
        raise Unsupported(f"call of {v}")

    def resolve_py(self, obj, name):
        import types

        if isinstance(obj, types.FunctionType) and obj.__module__.startswith("multidecoder"):
            q = f"{obj.__module__}.{obj.__qualname__}"
            c = self.contract_for(q)
            if c is not None and not c.inline:
                return ("contract", c, [])
            return ("repo", q)
        if isinstance(obj, type) and obj.__module__.startswith("multidecoder"):
            q = f"{obj.__module__}.{obj.__qualname__}"
            return ("class", q)
        if isinstance(obj, (types.FunctionType, types.BuiltinFunctionType)) and getattr(obj, "__module__", None):
            c = self.contract_for(f"{obj.__module__}.{obj.__qualname__}")
            if c is not None and c.trusted:
                return ("contract", c, [])  # a library function with an ASSUMED contract (listed in the evidence)
        if getattr(obj, "__name__", None) in SPECS and SPECS[obj.__name__] is obj:
            return ("spec", obj.__name__)
        return ("py", obj, name)

    def eval_args(self, node: ast.Call, st: State):
        args, kwargs = [], {}
        for a in node.args:
            if isinstance(a, ast.Starred):
                v = self.eval(a.value, st)
                if isinstance(v, VTuple):
                    args.extend(v.items)
                else:
                    raise Unsupported("*args of non-tuple")
            else:
                args.append(self.eval(a, st))
        for k in node.keywords:
            if k.arg is None:
                raise Unsupported("**kwargs")
            kwargs[k.arg] = self.eval(k.value, st)
        return args, kwargs

    def expr_Call(self, node: ast.Call, st: State) -> V:
        # spec-level quantifiers etc.
        if isinstance(node.func, ast.Name) and node.func.id in BT.SPEC_FORMS and node.func.id not in st.store:
            return BT.SPEC_FORMS[node.func.id](self, node, st)
        r = self.resolve_callee(node, st)
        tag = r[0]
        if tag == "method":
            _, name, recv, recv_node = r
            args, kwargs = self.eval_args(node, st)
            return BT.method(self, recv, name, args, kwargs, st, recv_node, node)
        if tag == "py":
            _, obj, name = r
            return BT.call_py(self, obj, name, node, st)
        if tag == "contract":
            _, c, pre = r
            args, kwargs = self.eval_args(node, st)
            return self.apply_contract(c, pre + args, kwargs, st)
        if tag == "spec":
            args, kwargs = self.eval_args(node, st)
            return self.apply_spec(r[1], args, st)
        if tag == "class":
            args, kwargs = self.eval_args(node, st)
            return self.construct(r[1], args, kwargs, st)
        if tag == "func":
            fn = r[1]
            args, kwargs = self.eval_args(node, st)
            if isinstance(fn.node, ast.Lambda):
                return self.inline_lambda(fn, args, st)
            body = [b_ for b_ in fn.node.body if not (isinstance(b_, ast.Expr) and isinstance(b_.value, ast.Constant))]
            if body and isinstance(body[-1], ast.Return) and body[-1].value is not None and all(
                    isinstance(b_, ast.Assign) and len(b_.targets) == 1 and isinstance(b_.targets[0], ast.Name) for b_ in body[:-1]):
                # a straight-line nested function (assignments to fresh locals, then `return e`): evaluated in place, in a scope of its own
                params = [a.arg for a in fn.node.args.args]
                if len(params) != len(args) or kwargs:
                    raise Unsupported(f"call of nested function {fn.name} with keyword / default arguments")
                saved = st.store
                st.store = dict(fn.closure) if fn.closure else dict(saved)
                for k_, v_ in saved.items():
                    st.store.setdefault(k_, v_)
                for p_, a_ in zip(params, args):
                    st.store[p_] = a_
                try:
                    for b_ in body[:-1]:
                        st.store[b_.targets[0].id] = self.eval(b_.value, st)
                    return self.eval(body[-1].value, st)
                finally:
                    st.store = saved
            raise Unsupported(f"call of nested function {fn.name} inside an expression (only at statement level)")
        if tag == "repo":
            mn, fn_ = split_qualname(r[1])
            fdef = module_info(mn).funcs.get(fn_)
            body = [b for b in (fdef.body if fdef else []) if not (isinstance(b, ast.Expr) and isinstance(b.value, ast.Constant))]
            if fdef is not None and len(body) == 1 and isinstance(body[0], ast.Return) and self.call_depth < 6:
                # a single-expression function: evaluated in place
                args, kwargs = self.eval_args(node, st)
                params = [a.arg for a in fdef.args.args]
                defaults = fdef.args.defaults
                nd = len(defaults)
                saved, saved_mod = st.store, getattr(self, "cur_module", None)
                new = {}
                for k_, p_ in enumerate(params):
                    if k_ < len(args):
                        new[p_] = args[k_]
                    elif p_ in kwargs:
                        new[p_] = kwargs[p_]
                    elif k_ >= len(params) - nd:
                        new[p_] = self.eval(defaults[k_ - (len(params) - nd)], st)
                    else:
                        raise Unsupported(f"missing argument {p_}")
                st.store = new
                self.cur_module = module_info(mn).mod
                self.call_depth += 1
                try:
                    return self.eval(body[0].value, st)
                finally:
                    self.call_depth -= 1
                    st.store = saved
                    self.cur_module = saved_mod
            raise Unsupported(f"call of {r[1]} without a contract inside an expression")
        if tag == "callable":
            args, kwargs = self.eval_args(node, st)
            return BT.call_callable(self, r[1], args, st)
        raise Unsupported(f"call {ast.unparse(node)[:50]}")

    def inline_lambda(self, fn: VFunc, args, st: State) -> V:
        params = [a.arg for a in fn.node.args.args]
        saved = st.store
        if fn.closure:
            st.store = dict(fn.closure)  # a real lambda: names resolve in the scope that created it
            for k, v in saved.items():
                if k in st.store and k in getattr(st, "bound", {}):
                    st.store[k] = v
        else:
            st.store = dict(saved)  # a contract macro: sees the current state
        saved_bound = st.bound
        if not fn.closure:
            st.bound = dict(st.bound)
        for p, a in zip(params, args):
            st.store[p] = a
            if not fn.closure:
                st.bound[p] = a  # macro parameters stay visible inside old(...) / at(...)
        try:
            return self.eval(fn.node.body, st)
        finally:
            st.store = saved
            st.bound = saved_bound

    def try_statement_call(self, value, st: State):
        """`x = f(...)` / `return f(...)` / `f(...)` where f is a repo function WITHOUT a contract or a nested def:
        execute its body (multi-path) in place.  Returns [(state, RETURN, value) | raising...] or None."""
        if not isinstance(value, ast.Call):
            return None
        f = value.func
        target = None
        if isinstance(f, ast.Name):
            if f.id in st.store and isinstance(st.store[f.id], VFunc) and isinstance(st.store[f.id].node, ast.FunctionDef):
                target = st.store[f.id]
            elif f.id not in st.store:
                mod = getattr(self, "cur_module", None) or self.mi.mod
                obj = getattr(mod, f.id, None)
                import types

                if isinstance(obj, types.FunctionType) and obj.__module__.startswith("multidecoder"):
                    q = f"{obj.__module__}.{obj.__qualname__}"
                    c = self.contract_for(q)
                    if c is None or c.inline:
                        mn, fn_ = split_qualname(q)
                        mi = module_info(mn)
                        target = VFunc(mi.funcs[fn_], {}, q, module=mi.mod)
        if target is None:
            return None
        if self.call_depth > 6:
            raise Unsupported("inline depth")
        args, kwargs = self.eval_args(value, st)
        pre = self.flush(st)
        return pre + self.inline_def(target, args, kwargs, st)

    def inline_def(self, fn: VFunc, args, kwargs, st: State):
        node = fn.node
        params = [a.arg for a in node.args.args]
        defaults = node.args.defaults
        saved_store = st.store
        new = dict(fn.closure) if fn.module is None else {}
        if fn.module is None:
            for k, v in saved_store.items():
                new.setdefault(k, v)
        nd = len(defaults)
        for i, p in enumerate(params):
            if i < len(args):
                new[p] = args[i]
            elif p in kwargs:
                new[p] = kwargs[p]
            elif i >= len(params) - nd:
                new[p] = self.eval(defaults[i - (len(params) - nd)], st)
            else:
                raise Unsupported(f"missing argument {p}")
        st.store = new
        saved_mod = getattr(self, "cur_module", None)
        saved_loops = self.loops
        saved_c = self.c
        if fn.module is not None:
            self.cur_module = fn.module
            self.loops = loops_in_order(node)
            callee_c = CONTRACTS.get(fn.name, Contract(fn.name))
            if not callee_c.ensures_each and saved_c.ensures_each:
                callee_c = copy.copy(callee_c)
                callee_c.ensures_each = saved_c.ensures_each  # the inlined callee builds the caller's result list
                callee_c.raises = saved_c.raises
                callee_c.each_local = saved_c.each_local
            self.c = callee_c
        self.call_depth += 1
        try:
            res = self.exec_block(node.body, st)
        finally:
            self.call_depth -= 1
            self.cur_module = saved_mod
            self.loops = saved_loops
            self.c = saved_c
        out = []
        for s, f, v in res:
            # restore the caller's locals; callee locals vanish
            callee_store = s.store
            s.store = dict(saved_store)
            if fn.module is None:
                # nested function: writes to enclosing names are not supported (would need nonlocal)
                pass
            if f == Flow.NEXT:
                out.append((s, Flow.RETURN, VNone()))
            elif f in (Flow.RETURN, Flow.RAISE):
                out.append((s, f, v))
            else:
                raise Unsupported("break/continue escaping a function")
        return out

    # ---- Node(...)
    def construct(self, q: str, args, kwargs, st: State) -> V:
        if q == "multidecoder.node.Node":
            c = self.contract_for("multidecoder.node.Node.__init__")
            if c is None:
                raise Unsupported("Node.__init__ has no contract")
            r = self.alloc_node(st)
            # a freshly allocated object: fields are unconstrained until __init__ sets them
            for f in HEAP_FIELDS:
                # ghost convention: a node constructed by the code under proof is the top of its own structure
                st.heap[f] = z3.Store(st.heap[f], r.z, r.z if f == "own" else fresh(f"uninit_{f}", HEAP_FIELDS[f][0]))
            st.heap["nchildren"] = z3.Store(st.heap["nchildren"], r.z, z3.IntVal(0))
            self.apply_contract(c, [r] + args, kwargs, st)
            return r
        raise Unsupported(f"constructor {q}")

    # ---- contracts at call sites
    def bind_params(self, c: Contract, args, kwargs, st: State):
        modname, fname = split_qualname(c.qualname)
        if c.trusted and fname not in module_info(modname).funcs if modname.startswith("multidecoder") else True:
            names = list(c.types)
            return dict(zip(names, args)) | kwargs
        fn = module_info(modname).funcs[fname]
        params = [a.arg for a in fn.args.args]
        defaults = fn.args.defaults
        nd = len(defaults)
        b = {}
        for i, p in enumerate(params):
            if i < len(args):
                b[p] = args[i]
            elif p in kwargs:
                b[p] = kwargs[p]
            elif i >= len(params) - nd:
                d = defaults[i - (len(params) - nd)]
                b[p] = self.eval(d, st)
            else:
                raise Unsupported(f"missing argument {p} for {c.qualname}")
            t = (c.types.get(p) or "").replace(" ", "")
            if isinstance(b[p], VOpt) and t in ("int", "bytes", "str"):
                # an optional value handed to a parameter that needs the value itself
                self.raise_if(st, b[p].none, "TypeError", f"None passed as {p}")
                b[p] = b[p].val
            if t.startswith("list[") and isinstance(b[p], VNone):
                b[p] = self.typed_empty({"int": "int", "bytes": "bytes", "Node": "ref", "str": "str"}[t[5:-1]])
            if t.startswith("list[") and isinstance(b[p], VList) and b[p].ek is None:
                b[p] = self.typed_empty({"int": "int", "bytes": "bytes", "Node": "ref", "str": "str"}[t[5:-1]])
        return b

    def apply_contract(self, c: Contract, args, kwargs, st: State) -> V:
        # the callee's contract text is read in the CALLEE's module (its clauses may name that module's constants)
        saved_mod = getattr(self, "cur_module", None)
        modname_, _fn = split_qualname(c.qualname)
        b = self.bind_params(c, args, kwargs, st)
        if modname_.startswith("multidecoder"):
            try:
                self.cur_module = module_info(modname_).mod
            except Exception:  # noqa: BLE001
                pass
        try:
            return self._apply_contract(c, b, st)
        finally:
            self.cur_module = saved_mod

    def _apply_contract(self, c: Contract, b, st: State) -> V:
        if not getattr(self, "spec_mode", False):
            st.calllog.append((c.qualname.split(".")[-1], list(b.values())))
        if c.trusted:
            self.assumed.add(c.qualname)
        # --- requires (callee's precondition is the caller's obligation)
        pre_view = st.clone()
        pre_view.store = dict(b)
        for nm_, src_ in c.defs.items():
            pre_view.store[nm_] = VFunc(ast.parse(src_.strip(), mode="eval").body, {}, nm_)
        pre_view.old = pre_view
        pre_view.guards = list(st.guards)
        short = c.qualname.split(".", 1)[1]
        for nm, e in c.requires.items():
            self.oblige(pre_view, "pre", f"{short}/{nm}@L{getattr(self, 'cur_line', 0) - self.fn.lineno}", self.spec_bool(e, pre_view), getattr(self, "cur_line", 0))
        cs = self.c.call_site.get(c.qualname.split(".")[-1])
        if cs and not getattr(self, "spec_mode", False):
            v2 = st.clone()
            for k_, v_ in b.items():
                v2.store["callee_" + k_] = v_
            for nm, e in cs.items():
                self.oblige(v2, "callsite", f"{c.qualname.split('.')[-1]}/{nm}@L{getattr(self, 'cur_line', 0) - self.fn.lineno}", self.spec_bool(e, v2), getattr(self, "cur_line", 0))
        # --- termination of recursion
        if c.qualname == self.qualname and c.decreases:
            d0 = self.spec_val(c.decreases, self.entry)
            d1 = self.spec_val(c.decreases, pre_view)
            self.oblige(pre_view, "dec/rec", f"L{getattr(self, 'cur_line', 0) - self.fn.lineno}", self.lex_less(d1, d0), getattr(self, "cur_line", 0))
        # --- havoc what the callee may modify
        if c.modifies:
            for f, targets in c.modifies.items():
                flds = [f] + (["nchildren"] if f == "children" else [])
                for fld in flds:
                    tvs = [self.spec_val(ex, pre_view) for ex in targets] if "*" not in targets else []
                    if tvs and all(isinstance(tv, VRef) for tv in tvs):
                        # single objects: new == old except at the targets, written as stores (no quantified frame needed)
                        cur = st.heap[fld]
                        for tv in tvs:
                            cur = z3.Store(cur, tv.z, fresh(f"v_{fld}@call", cur.sort().range()))
                        st.heap[fld] = cur
                        continue
                    newarr = fresh(f"H_{fld}@call", st.heap[fld].sort())
                    r = fresh("r", I)
                    conds = [0 <= r, r < st.alloc]
                    if "*" not in targets:
                        for ex in targets:
                            tv = self.spec_val(ex, pre_view)
                            if isinstance(tv, VRef):
                                conds.append(r != tv.z)
                            elif isinstance(tv, VList):
                                k = fresh("k", I)
                                conds.append(z3.Not(z3.Exists([k], z3.And(0 <= k, k < tv.n, tv.arr[k] == r))))
                            else:
                                raise Unsupported("modifies target")
                        st.assume(z3.ForAll([r], z3.Implies(z3.And(*conds), newarr[r] == st.heap[fld][r])))
                    st.heap[fld] = newarr
        if c.fresh_nodes:
            a = fresh("alloc@call", I)
            st.assume(a >= st.alloc)
            old_alloc = st.alloc
            for fld in list(HEAP_FIELDS) + ["children", "nchildren"]:
                if c.modifies and (fld in c.modifies or (fld == "nchildren" and "children" in c.modifies)):
                    continue
                newarr = fresh(f"H_{fld}@callfresh", st.heap[fld].sort())
                r = fresh("r", I)
                st.assume(z3.ForAll([r], z3.Implies(z3.And(0 <= r, r < old_alloc), newarr[r] == st.heap[fld][r])))
                st.heap[fld] = newarr
            st.alloc = a
        if c.modifies or c.fresh_nodes:
            self.heap_type_invariants(st)
        # --- exceptional exits
        for exc, cond in list(c.raises.items()) + list(c.raises_iff.items()):
            cz = self.spec_bool(cond, pre_view)
            if exc in c.raises_iff:
                self.raise_if(st, cz, exc, f"call {short}")
            else:
                flag = fresh(f"raises_{exc}", B)
                self.raise_if(st, z3.And(flag, cz), exc, f"call {short}")
        # --- result + ensures
        res = self.result_symbol(c, st)
        post_view = st.clone()
        post_view.store = dict(b)
        for nm_, src_ in c.defs.items():
            post_view.store[nm_] = VFunc(ast.parse(src_.strip(), mode="eval").body, {}, nm_)
        post_view.store["result"] = res
        for lp_ in c.loops.values():
            for gname, gspec in lp_.ghosts.items():
                # ghosts of the callee's loops that its postcondition mentions are existential witnesses at the call site
                post_view.store[gname] = self.sym_of_type(gspec.type, f"{gname}!witness{_next_id()}", st)
        post_view.old = pre_view
        post_view.guards = []
        saved_fu = getattr(self, "force_uf", False)
        self.force_uf = True  # a callee's postcondition is stated over the operation symbols (each with its ground defining equation)
        try:
            for nm, e in c.ensures.items():
                st.assume(self.spec_bool(e, post_view))
            if c.ensures_each and isinstance(res, VList) and res.ek == "ref":
                kk = fresh("k", I)
                ev = post_view.clone()
                ev.in_binder += 1
                ev.store["node"] = VRef(res.arr[kk])
                for nm, e in c.ensures_each.items():
                    st.assume(z3.ForAll([kk], z3.Implies(z3.And(0 <= kk, kk < res.n), self.spec_bool(e, ev))))
        finally:
            self.force_uf = saved_fu
        return res

    def lex_less(self, a: V, b: V):
        if isinstance(a, VInt):
            return z3.And(b.z >= 0, a.z < b.z)
        if isinstance(a, VTuple):
            x, y = a.items, b.items
            res = z3.BoolVal(False)
            for i in reversed(range(len(x))):
                res = z3.Or(z3.And(y[i].z >= 0, x[i].z < y[i].z), z3.And(x[i].z == y[i].z, res))
            return res
        raise Unsupported("decreases measure")

    def result_symbol(self, c: Contract, st: State) -> V:
        t = c.returns
        if t is None:
            modname, fname = split_qualname(c.qualname)
            if not c.trusted or fname in module_info(modname).funcs:
                fn = module_info(modname).funcs[fname]
                t = self.ann_to_type(fn.returns)
        if t in (None, "None"):
            return VNone()
        return self.sym_of_result(t, st)

    def sym_of_result(self, t: str, st: State) -> V:
        t = t.replace(" ", "")
        nm = f"ret!{_next_id()}"
        if t.startswith("tuple["):
            parts = split_top(t[6:-1])
            return VTuple([self.sym_of_result(p, st) for p in parts])
        if t in ("Node", "Self"):
            r = z3.Int(nm)
            st.assume(r >= 0, r < st.alloc)
            return VRef(r)
        if t == "int|None":
            return VOpt(z3.Bool(nm + "_none"), VInt(z3.Int(nm)))
        return self.sym_of_type(t, nm, st)

    # ------------------------------------------------------------------ specification expressions
    def spec_val(self, expr: str, st: State, extra=None) -> V:
        tree = ast.parse(expr.strip(), mode="eval").body
        view = st.clone()
        view.guards = []
        view.pending = []
        if extra:
            for k, v in extra.items():
                if isinstance(v, State):
                    view.labels = dict(view.labels)
                    view.labels[k] = v
                else:
                    view.store[k] = v
        saved = getattr(self, "spec_mode", False)
        self.spec_mode = True
        try:
            val = self.eval(tree, view)
        finally:
            self.spec_mode = saved
        # facts discovered while evaluating the specification are facts of the encoding: keep them
        for c in view.path[len(st.path) :]:
            st.path.append(c)
        st.facts_seen |= view.facts_seen
        return val

    def spec_bool(self, expr: str, st: State, extra=None):
        v = self.spec_val(expr, st, extra)
        return self.truthy(v, st)

    def apply_spec(self, name: str, args, st: State) -> V:
        from .specfun import spec_function

        f, ret, heap_fields = spec_function(self, name, st)
        zargs = []
        for a in args:
            if isinstance(a, VList):
                zargs.extend([a.arr, a.n])
            else:
                zargs.append(a.z)
        zargs.extend(st.heap[fld] for fld in heap_fields)  # the heap of the state the specification is evaluated in
        z = f(*zargs)
        if isinstance(ret, tuple):
            raise Unsupported("tuple-valued spec function")
        return elem_val(ret, z)


def ground_links(goal, opaque=False):
    """Defining equations of the ground SLICE(...) terms of a goal: a clause evaluated under a binder uses the uninterpreted symbol;
    once the clause has been instantiated (peeled last element, quantifier-free goal) the instance needs its definition."""
    if opaque:
        return []
    from .values import str_slice

    out, seen = [], set()

    def has_var(e):
        return any(z3.is_var(x) for x in _subterms(e))

    def walk(e):
        if e.get_id() in seen:
            return
        seen.add(e.get_id())
        if z3.is_quantifier(e):
            walk(e.body())
            return
        if z3.is_app(e):
            if e.decl().name() == "SLICE" and e.num_args() == 3 and not has_var(e):
                x, a, b = e.arg(0), e.arg(1), e.arg(2)
                n = z3.Length(x)
                out.append(z3.And(z3.Implies(z3.And(0 <= a, a <= b), z3.And(e == z3.SubString(x, a, b - a), z3.Length(e) == z3.If(b <= n, b - a, z3.If(a <= n, n - a, 0)))),
                                  z3.Implies(z3.And(0 <= b, b < a), e == z3.StringVal("")),
                                  z3.Implies(z3.Or(a < 0, b < 0), e == str_slice(x, a, b))))
            for c in e.children():
                walk(c)

    walk(goal)
    return out[:8]


def split_goal(g, depth=0):
    """One query per clause: split top-level conjunctions, also under a universal quantifier / implication."""
    if depth > 3:
        return [g]
    if z3.is_and(g):
        out = []
        for c in g.children():
            out.extend(split_goal(c, depth + 1))
        return out
    if z3.is_implies(g) and z3.is_and(g.arg(1)):
        return [z3.Implies(g.arg(0), c) for c in split_goal(g.arg(1), depth + 1)]
    if z3.is_or(g) and sum(1 for c in g.children() if z3.is_and(c)) == 1:
        # (A1 and A2 ...) or X   ==   (A1 or X) and (A2 or X) ...      (the simplified shape of  X' ==> A1 and A2 ...)
        kids = g.children()
        conj = next(c for c in kids if z3.is_and(c))
        rest = [c for c in kids if not z3.is_and(c)]
        return [z3.Or(c, *rest) for c in split_goal(conj, depth + 1)]
    if z3.is_quantifier(g) and g.is_forall():
        b = g.body()
        if z3.is_implies(b) and z3.is_and(b.arg(1)) or z3.is_and(b):
            vs = [z3.Const(f"{g.var_name(i)}", g.var_sort(i)) for i in range(g.num_vars())]
            inst = z3.substitute_vars(b, *reversed(vs))
            return [z3.ForAll(vs, c) for c in split_goal(inst, depth + 1)]
    return [g]


def _flatten_and(e):
    if z3.is_and(e):
        out = []
        for c in e.children():
            out.extend(_flatten_and(c))
        return out
    return [e]


def _peel_last(g):
    k = z3.Const(g.var_name(0), g.var_sort(0))
    b = z3.substitute_vars(g.body(), k)
    if not z3.is_implies(b):
        return None
    conds = _flatten_and(b.arg(0))
    for idx, c in enumerate(conds):
        if z3.is_lt(c) and c.arg(0).eq(k):
            hi = z3.simplify(c.arg(1))
            # hi == t + 1 ?
            t = z3.simplify(hi - 1)
            if z3.is_int_value(hi) and 1 <= hi.as_long() <= 6:
                # a list of known length: one instance per element
                rest = [x for j, x in enumerate(conds) if j != idx]
                body = z3.Implies(z3.And(*rest) if rest else z3.BoolVal(True), b.arg(1))
                return [z3.simplify(z3.substitute(body, (k, z3.IntVal(j)))) for j in range(hi.as_long())]
            if z3.is_add(hi) and any(z3.is_int_value(a) and a.as_long() >= 1 for a in hi.children()) and not any(k.eq(x) for x in _subterms(hi)):
                rest = [x for j, x in enumerate(conds) if j != idx]
                lower_part = z3.ForAll([k], z3.Implies(z3.And(*rest, k < t), b.arg(1)))
                last = z3.substitute(z3.Implies(z3.And(*rest) if rest else z3.BoolVal(True), b.arg(1)), (k, t))
                return [lower_part, last]
    return None


def _subterms(e):
    out, stack = [], [e]
    while stack:
        x = stack.pop()
        out.append(x)
        stack.extend(x.children())
    return out


_idc = [0]


def _next_id():
    _idc[0] += 1
    return _idc[0]


def split_top(s: str, sep: str = ","):
    out, depth, cur = [], 0, ""
    for ch in s:
        if ch in "[(":
            depth += 1
        if ch in "])":
            depth -= 1
        if ch == sep and depth == 0:
            out.append(cur)
            cur = ""
        else:
            cur += ch
    if cur:
        out.append(cur)
    return out
