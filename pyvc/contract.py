"""Contract registry.  Contracts are *sidecar* objects keyed by the qualified name of a real function in /repo.

All contract expressions are Python source strings.  The same text is (a) turned into formulas by the symbolic
executor (one semantics for code and specification) and (b) evaluated by CPython at run time when a
counterexample is replayed or a bounded stand-in runs (pyvc.runtime).
"""
from __future__ import annotations

import inspect
from dataclasses import dataclass, field

CONTRACTS: dict[str, "Contract"] = {}
SPECS: dict[str, object] = {}  # name -> python function (pure; if/return chains and let-bindings only)
LEMMAS: dict[str, "Lemma"] = {}
MODEL_LEMMAS: dict[str, object] = {}  # name -> callable() -> [(suffix, hyps, goal)]: facts a builtin model hands out that are CONSEQUENCES of its stated contract (proved every run)


@dataclass
class Ghost:
    type: str  # "int" | "list[int]" | "bytes" | "bool"
    init: str  # expression at loop entry
    step: str  # expression at the loop latch over old.<var> (loop-head state) and the current state


@dataclass
class Loop:
    inv: dict[str, str] = field(default_factory=dict)
    variant: str | None = None  # integer expression, >= 0 at the head whenever the guard holds, strictly decreasing
    ghosts: dict[str, Ghost] = field(default_factory=dict)
    index: str | None = None  # name under which the hidden index of a `for` loop is visible to the invariant
    transition: dict[str, str] = field(default_factory=dict)  # proved at every latch over old.<var> (head state) and the current state; NOT assumed
    hints: list[str] = field(default_factory=list)  # `LEMMA: instance` assumed at loop entry, head and latch (the lemma is proved in the same run)
    cut: list[str] = field(default_factory=list)  # transition clauses that, once stated as obligations, are assumed for the preservation obligations (cut rule)
    latch_hints: list[str] = field(default_factory=list)  # the same, assumed at the latch only (may mention the loop variable)


@dataclass
class Contract:
    qualname: str  # e.g. multidecoder.keyword.find_all / multidecoder.node.Node.flatten
    props: list[str] = field(default_factory=list)
    types: dict[str, str] = field(default_factory=dict)  # parameter / local types overriding annotations
    returns: str | None = None
    requires: dict[str, str] = field(default_factory=dict)
    ensures: dict[str, str] = field(default_factory=dict)
    raises: dict[str, str] = field(default_factory=dict)  # exception class -> condition under which it MAY escape ("True" = any time)
    raises_iff: dict[str, str] = field(default_factory=dict)  # exception class -> exact condition (over entry state)
    loops: dict[int, Loop] = field(default_factory=dict)
    modifies: dict[str, list[str]] | None = None  # field -> expressions naming the pre-existing nodes whose field may change; None = pure
    fresh_nodes: bool = False  # may allocate nodes
    decreases: str | None = None
    opaque: set[str] = field(default_factory=set)
    trusted: bool = False  # an ASSUMED contract (stdlib / third party): used at call sites, never verified
    inline: bool = False
    ghost_params: dict[str, str] = field(default_factory=dict)
    notes: str = ""
    hints: dict[str, list[str]] = field(default_factory=dict)  # {cut anchor | "return": [lemma instance hints]} assumed on every path reaching that point
    defs: dict[str, str] = field(default_factory=dict)  # macro name -> lambda source, usable in every contract expression
    reads: dict[str, list[str]] | None = None  # parameter -> the only fields of that object the function may read (reads frame)
    call_site: dict[str, dict[str, str]] = field(default_factory=dict)  # callee short name -> clauses over callee_<param> and the caller's state
    registry_requires: dict[str, str] = field(default_factory=dict)  # obligations at every invocation of a registry entry
    ensures_each: dict[str, str] = field(default_factory=dict)  # clauses over `node` that hold of EVERY element of the returned list of nodes
    comp_assume: dict[str, str] = field(default_factory=dict)  # comprehension target -> ASSUMED fact about every element (trusted lemma, validated at run time)
    cuts: dict[str, dict[str, str]] = field(default_factory=dict)  # straight-line cut points: {source prefix of a top-level statement: {clause name: invariant}}
    asserts: dict[str, dict[str, str]] = field(default_factory=dict)  # {source prefix of a statement: {name: clause}}: proved on every path reaching the statement, then assumed (cut rule)
    pins: dict = field(default_factory=dict)  # module constant (a regex pattern) -> the pattern whose language it must have: L(constant°) == L(pinned°), an obligation of its own
    result_is: str | None = None  # for a PURE function: the specification expression its result equals (used where the call is implicit and element-wise, e.g. list ==)
    labels: dict[str, str] = field(default_factory=dict)  # {label: source prefix of a statement}: the state BEFORE that statement, for at(label, e) and two-heap lemma instances
    each_local: dict[str, str] = field(default_factory=dict)  # clauses over `node` AND the locals of the comprehension body (e.g. `match`): proved of the arbitrary element, not exported
    comp_each: dict[str, str] = field(default_factory=dict)  # clauses over `elem` (the element) and `k_` (its index) proved of the arbitrary element of a comprehension and then assumed of all
    collector: str | None = None  # name of the local list the function appends its results to (standard collector invariant for its loops)


def contract(qualname: str, **kw) -> Contract:
    c = Contract(qualname, **kw)
    CONTRACTS[qualname] = c
    return c


def spec(fn):
    """Register a specification function (pure Python, executable; translated to a z3 recursive function on demand)."""
    SPECS[fn.__name__] = fn
    return fn


@dataclass
class Lemma:
    name: str
    props: list[str]
    vars: dict[str, str]
    hyps: list[str]
    goal: str
    notes: str = ""
    trusted: bool = False  # an AXIOM about a library operation (validated at run time), instantiated by hints, never proved
    ih: list[str] = field(default_factory=list)  # induction hypotheses: available to the PROOF of the lemma only, never required of (or given to) a user of an instance
    uses: list[str] = field(default_factory=list)  # instances of OTHER lemmas (hint syntax) assumed in the proof of this one
    two_heaps: bool = False  # a frame lemma: `old(e)` reads e in a SECOND, unrelated heap (an instance names the earlier state: `LEMMA@label: ...`)


def lemma(name, props, vars, hyps, goal, notes="", trusted=False, ih=(), uses=(), two_heaps=False):
    LEMMAS[name] = Lemma(name, props, vars, hyps, goal, notes, trusted, list(ih), list(uses), two_heaps)
    return LEMMAS[name]


def spec_source(fn) -> str:
    return inspect.getsource(fn)
