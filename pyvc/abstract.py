"""String abstraction: replace the String sort by an uninterpreted sort and every string operation by an
uninterpreted function (keeping congruence, literal lengths and literal distinctness).

Sound for PROVING: the abstraction only forgets facts, so `unsat` of the abstracted query implies `unsat` of the
original.  A `sat` answer of the abstracted query means nothing and is never reported; the native query is tried
next.
"""
from __future__ import annotations

import z3

U = z3.DeclareSort("Str")
_cache_sorts = {}


def asort(s):
    if s == z3.StringSort():
        return U
    if s.kind() == z3.Z3_ARRAY_SORT:
        return z3.ArraySort(asort(s.domain()), asort(s.range()))
    if s.kind() == z3.Z3_RE_SORT:
        raise NotAbstractable("regex sort")
    if s.kind() == z3.Z3_SEQ_SORT:
        raise NotAbstractable("seq sort")
    return s


class NotAbstractable(Exception):
    pass


class Abstractor:
    def __init__(self):
        self.memo = {}
        self.lits = {}
        self.side = []
        self.LEN = z3.Function("LEN", U, z3.IntSort())
        self.funs = {}
        self.len_terms = {}

    def fun(self, name, *sorts):
        key = (name, tuple(str(s) for s in sorts))
        if key not in self.funs:
            self.funs[key] = z3.Function(f"abs_{name}_{len(self.funs)}", *sorts)
        return self.funs[key]

    def lit(self, e):
        v = e.as_string()
        if v not in self.lits:
            c = z3.Const(f"lit_{len(self.lits)}", U)
            self.lits[v] = c
            n = z3.simplify(z3.Length(e)).as_long()
            self.side.append(self.LEN(c) == n)
        return self.lits[v]

    def tr(self, e):
        k = e.get_id()
        if k in self.memo:
            return self.memo[k][1]
        r = self._tr(e)
        self.memo[k] = (e, r)  # keep `e` alive: ids of collected terms are reused
        return r

    def _tr(self, e):
        if z3.is_quantifier(e):
            n = e.num_vars()
            vs = [z3.Const(f"{e.var_name(i)}!q{e.get_id()}", asort(e.var_sort(i))) for i in range(n)]
            # instantiate de-Bruijn variables (innermost has index 0)
            body = z3.substitute_vars(e.body(), *reversed([z3.Const(f"{e.var_name(i)}!q{e.get_id()}", e.var_sort(i)) for i in range(n)]))
            b2 = self.tr(body)
            if e.is_lambda():
                return z3.Lambda(vs, b2)
            return z3.ForAll(vs, b2) if e.is_forall() else z3.Exists(vs, b2)
        if z3.is_var(e):
            raise NotAbstractable("free de-Bruijn variable")
        if z3.is_string_value(e):
            return self.lit(e)
        if not z3.is_app(e):
            raise NotAbstractable(str(e))
        d = e.decl()
        kind = d.kind()
        if kind == z3.Z3_OP_SEQ_IN_RE:
            # membership in a fixed regular language: an uninterpreted predicate indexed by the language text
            f = self.fun("inre_" + str(abs(hash(e.children()[1].sexpr())) % 10**10), U, z3.BoolSort())
            return f(self.tr(e.children()[0]))
        args = [self.tr(a) for a in e.children()]
        srt = e.sort()
        if e.num_args() == 0:
            if kind == z3.Z3_OP_UNINTERPRETED:
                return z3.Const(d.name(), asort(srt)) if srt == z3.StringSort() or srt.kind() == z3.Z3_ARRAY_SORT else e
            return e
        if kind == z3.Z3_OP_SEQ_LENGTH:
            t = self.LEN(args[0])
            self.len_terms[t.get_id()] = t
            return t
        if kind == z3.Z3_OP_UNINTERPRETED:
            f = z3.Function(d.name() + "_a", *[a.sort() for a in args], asort(srt))
            return f(*args)
        involves_str = srt == z3.StringSort() or any(c.sort() == z3.StringSort() or c.sort().kind() in (z3.Z3_RE_SORT,) for c in e.children())
        if any(c.sort().kind() == z3.Z3_RE_SORT for c in e.children()) or srt.kind() == z3.Z3_RE_SORT:
            # membership in a fixed regular language: an uninterpreted predicate indexed by the language text
            if kind == z3.Z3_OP_SEQ_IN_RE:
                f = self.fun("inre_" + str(abs(hash(e.children()[1].sexpr())) % 10**8), U, z3.BoolSort())
                return f(args[0])
            raise NotAbstractable("regex term")
        if involves_str and kind not in (z3.Z3_OP_EQ, z3.Z3_OP_DISTINCT, z3.Z3_OP_ITE, z3.Z3_OP_SELECT, z3.Z3_OP_STORE, z3.Z3_OP_CONST_ARRAY):
            f = self.fun(d.name(), *[a.sort() for a in args], asort(srt))
            return f(*args)
        # interpreted non-string operator (or =, ite, select, store): rebuild with translated children
        if kind == z3.Z3_OP_EQ:
            return args[0] == args[1]
        if kind == z3.Z3_OP_DISTINCT:
            return z3.Distinct(*args)
        if kind == z3.Z3_OP_ITE:
            return z3.If(*args)
        if kind == z3.Z3_OP_SELECT:
            return z3.Select(*args) if len(args) == 2 else args[0][args[1]]
        if kind == z3.Z3_OP_STORE:
            return z3.Store(*args)
        if kind == z3.Z3_OP_CONST_ARRAY:
            return z3.K(asort(srt).domain(), args[0])
        return d(*args)

    def finish(self):
        side = list(self.side)
        lits = list(self.lits.values())
        if len(lits) > 1:
            side.append(z3.Distinct(*lits))
        for t in self.len_terms.values():
            side.append(t >= 0)
        return side


def abstract_query(hyps, goal):
    """-> list of assertions (hyps + not goal) over the uninterpreted sort, or None if not abstractable."""
    a = Abstractor()
    try:
        out = [a.tr(h) for h in hyps]
        out.append(z3.Not(a.tr(goal)))
    except NotAbstractable:
        return None
    except z3.Z3Exception:
        return None
    return out + a.finish()
