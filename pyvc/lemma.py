"""Lemmas: statements over specification functions only (no code), proved as single obligations."""
from __future__ import annotations

import z3

from .contract import Contract
from .exec import Exec, Obligation, State, new_heap


class LemmaVC(Exec):
    def __init__(self, name):
        self.qualname = "lemma." + name
        self.c = Contract(self.qualname)
        self.obligations = []
        self.loops = []
        self.notes = []
        self.rec_specs = {}
        self.entry = None
        self.uf = {}
        self.tier = "quick"
        self.call_depth = 0
        self.assumed = set()
        self.carves = []
        self.fn = None
        self.mi = None
        self.spec_mode = True
        self.in_recdef = 1  # a lemma is a statement over specification functions: slices are written natively, like in the definitions it unfolds
        self.cur_module = __import__("builtins")


def lemma_obligations(lm):
    ex = LemmaVC(lm.name)
    st = State()
    st.heap = new_heap("0")
    st.alloc = z3.Int("alloc0")
    st.assume(st.alloc >= 0)
    for v, t in lm.vars.items():
        st.store[v] = ex.sym_of_type(t, v, st)
    st.old = st
    if lm.two_heaps:
        so = st.clone()
        so.heap = new_heap("old")
        so.old = so
        st.old = so
        ex.heap_type_invariants(so)
    ex.entry = st.clone()
    for h in list(lm.hyps) + list(lm.ih):
        st.assume(ex.spec_bool(h, st))
    for hnt in lm.uses:
        if hnt.split(":")[0].strip() == lm.name:
            raise ValueError(f"lemma {lm.name} uses itself (write an induction hypothesis instead)")
        st.assume(ex.lemma_instance(hnt, st))
    goal = ex.spec_bool(lm.goal, st)
    ex.oblige(st, "lemma", "goal", goal)
    for o in ex.obligations:
        o.name = o.name.replace("lemma." + lm.name + "/lemma/goal", "lemma/" + lm.name)
    from .contract import LEMMAS

    out = list(ex.obligations)
    for other in sorted(getattr(ex, "used_lemmas", ())):
        if not LEMMAS[other].trusted and other != lm.name:
            out.extend(lemma_obligations(LEMMAS[other]))  # a lemma used in a proof is proved in the same run
    return out
